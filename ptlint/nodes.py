"""Discovery of node implementations and their EDTs (shared by the EDT-based rules)."""
from . import edt, facts

TN_TRAIT = "pest_typed::typed_node::TypedNode"
NF_TRAIT = "pest_typed::typed_node::NeverFailedTypedNode"
PTN_TRAIT = "pest_typed::typed_node::ParsableTypedNode"

TWIN_METHODS = {
    TN_TRAIT: ("try_parse_partial_with", "try_check_partial_with"),
    NF_TRAIT: ("parse_with", "check_with"),
    PTN_TRAIT: ("try_parse_with", "try_check_with"),
}

# one named construct each, with the reason (DESIGN §4 C03)
ASSUME = {
    "<[T; N] as pest_typed::typed_node::TypedNode<'i, R>>::try_parse_partial_with": (
        {"TryInto::try_into": ("Ok", "continue", "some", "match")},
        "Vec::try_into::<[T; N]>() cannot fail: the loop pushed exactly N items (the source says 'Actually impossible')"),
}


class Impl:
    def __init__(self, crate, item):
        self.crate = crate
        self.item = item
        self.trait = item.get("trait")
        self.self_ty = crate.tys(item["self_ty"])
        self.id = item["id"]
        self.methods = {m["name"]: m["id"] for m in item.get("items", []) if m["kind"] == "AssocFn"}
        self.loc = crate.loc(item.get("sp"))
        self.macro = (item.get("expn") or {}).get("macro")

    def self_adt(self):
        """(path, [arg]) of the impl's self type; arg = ('t', type-dict) | ('c', const-string)"""
        t = self.crate.types[self.item["self_ty"]]
        return type_adt(self.crate, t)

    def skipped_params(self):
        """(S, K) when every type argument of the self type is Skipped<_, S, K> with the same S and K."""
        path, args = self.self_adt()
        sk = []
        for kind, a in args:
            if kind != "t":
                continue
            p2, a2 = type_adt(self.crate, a)
            if p2 != "pest_typed::predefined_node::Skipped":
                return None
            targs = [x for x in a2]
            if len(targs) != 3:
                return None
            s = self.crate.tys_of(targs[1][1]) if targs[1][0] == "t" else None
            k = targs[2][1] if targs[2][0] == "c" else None
            sk.append((s, k))
        if not sk or any(x != sk[0] for x in sk):
            return None
        return sk[0]

    def key(self):
        """Stable, line-free name of the construct."""
        return "%s for %s" % (self.trait.rsplit("::", 1)[-1], self.self_ty)


def type_adt(crate, t):
    if t["k"] == "array":
        return "array", [("t", crate.types[t["elem"]]), ("c", t["len"])]
    if t["k"] == "tuple":
        return "tuple", [("t", crate.types[x]) for x in t["elems"]]
    if t["k"] != "adt":
        return t["k"], []
    args = []
    for a in t.get("args", []):
        if "t" in a:
            args.append(("t", crate.types[a["t"]]))
        elif "c" in a:
            args.append(("c", a["c"]))
    return t["path"], args


class World:
    """Facts + evaluator over pest_typed and (optionally) fixture crates."""

    def __init__(self, fs, crate_keys):
        self.fs = fs
        self.crates = [fs[k] for k in crate_keys]
        self.ev = edt.Evaluator(self.crates + ([fs["pest_typed"]] if "pest_typed" not in crate_keys else []))
        self._cache = {}

    def impls(self, trait):
        for c in self.crates:
            for it in c.impls():
                if it.get("trait") == trait:
                    yield Impl(c, it)

    def raw_tree(self, fn_id):
        if fn_id not in self._cache:
            self.ev.unmodelled = []
            t = self.ev.eval_fn(fn_id)
            self._cache[fn_id] = (t, list(self.ev.unmodelled))
        return self._cache[fn_id]

    def tree(self, fn_id, erase=True):
        t, unm = self.raw_tree(fn_id)
        assume = ASSUME.get(fn_id, ({}, None))[0]
        return edt.canon(t, erase=erase, assume=assume)

    def unmodelled(self, fn_id):
        return self.raw_tree(fn_id)[1]

    def fn_loc(self, fn_id):
        for c in self.crates + [self.fs["pest_typed"]]:
            it = c.item(fn_id)
            if it:
                return c.loc(it.get("sp"))
        return "?"

    def twin_pairs(self):
        """(key, parse fn id, check fn id, loc, group)"""
        out = []
        for trait, (pm, cm) in TWIN_METHODS.items():
            for im in self.impls(trait):
                if pm in im.methods and cm in im.methods:
                    out.append((im.key(), im.methods[pm], im.methods[cm], im.loc, im))
        return out


def tree_diff(a, b):
    """First differing pair of subtrees (top-down)."""
    if a == b:
        return None
    if a[0] != b[0]:
        return a, b
    tag = a[0]
    if tag in ("ev", "fork"):
        if a[2] != b[2]:
            return a, b
        for x, y in zip(a[3:], b[3:]):
            d = tree_diff(x, y)
            if d:
                return d
        return a, b
    if tag == "loop":
        if a[2] != b[2] or a[3] != b[3]:
            return a, b
        return tree_diff(a[4], b[4]) or tree_diff(a[5], b[5]) or (a, b)
    if tag == "opq":
        if a[1] != b[1] or len(a[2]) != len(b[2]):
            return a, b
        for (la, sa), (lb, sb) in zip(a[2], b[2]):
            if la != lb:
                return a, b
            d = tree_diff(sa, sb)
            if d:
                return d
        return a, b
    if tag == "unm":
        return tree_diff(a[2], b[2]) or (a, b)
    return a, b
