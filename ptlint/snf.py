"""Sibling normal form: decide 'these two functions are the same program'.

Both bodies come from HIR-lite. Normalisation: locals alpha-renamed in order of
first occurrence; resolved paths with a crate map and a rename table; method-call
syntax == UFCS call; `unsafe { e }`/`{ e }` == e; debug_assert* statements
dropped; trailing `return e;` == `e`; spans, attributes, docs, formatting and
expression types are not part of the form.
"""
import re

DEBUG_ASSERT = ("debug_assert", "debug_assert_eq", "debug_assert_ne")


class N:
    __slots__ = ("t", "kids", "loc")

    def __init__(self, t, kids=(), loc=None):
        self.t = t
        self.kids = list(kids)
        self.loc = loc

    def __eq__(self, o):
        return isinstance(o, N) and self.t == o.t and self.kids == o.kids

    def __ne__(self, o):
        return not self.__eq__(o)

    def size(self):
        return 1 + sum(k.size() for k in self.kids)

    def show(self, depth=0, maxdepth=3):
        s = " ".join(str(x) for x in self.t)
        if depth >= maxdepth or not self.kids:
            return s + ("(...)" if self.kids else "")
        return s + "(" + ", ".join(k.show(depth + 1, maxdepth) for k in self.kids) + ")"


def first_diff(a, b):
    """Deepest-first differing pair of nodes."""
    if a.t != b.t or len(a.kids) != len(b.kids):
        return a, b
    for x, y in zip(a.kids, b.kids):
        if x != y:
            return first_diff(x, y)
    return None


class Normalizer:
    def __init__(self, crate, crate_map=None, renames=None, drop_debug_assert=True, keep_lits=True,
                 path_hook=None):
        self.c = crate
        self.crate_map = crate_map or {}
        self.renames = renames or {}
        self.drop_debug_assert = drop_debug_assert
        self.path_hook = path_hook
        self.vars = {}

    # -- paths and types

    def npath(self, p):
        if p is None:
            return None
        for a, b in self.crate_map.items():
            p = re.sub(r"(?<![A-Za-z0-9_])" + re.escape(a) + "::", b + "::", p)
        for a, b in self.renames.items():
            p = re.sub(r"(?<![A-Za-z0-9_])" + re.escape(a) + r"(?![A-Za-z0-9_])", b, p)
        if "{closure@" in p:
            p = re.sub(r"\{closure@[^}]*\}", "{closure}", p)
        if self.path_hook:
            p = self.path_hook(p)
        return p

    def nargs(self, args):
        out = []
        for a in args or []:
            if "t" in a:
                out.append(self.npath(self.c.tys(a["t"])))
            elif "c" in a:
                out.append("const " + a["c"])
        return tuple(out)

    def callee(self, c):
        return (self.npath(c["path"]), self.nargs(c.get("args")))

    def var(self, v):
        if v not in self.vars:
            self.vars[v] = len(self.vars)
        return self.vars[v]

    def loc(self, n):
        return self.c.loc(n.get("sp"))

    # -- patterns

    def pat(self, p):
        k = p["k"]
        if k == "bind":
            kids = [self.pat(p["sub"])] if "sub" in p else []
            return N(("bind", self.var(p["var"]), p.get("by_ref", False)), kids)
        if k in ("wild", "never", "err"):
            return N((k,))
        if k == "struct":
            return N(("pstruct", self.res(p["res"])) + tuple(f["name"] for f in p["fields"]),
                     [self.pat(f["p"]) for f in p["fields"]])
        if k == "tstruct":
            return N(("ptstruct", self.res(p["res"]), p.get("dotdot")), [self.pat(x) for x in p["ps"]])
        if k in ("or", "tuple"):
            return N(("p" + k, p.get("dotdot")), [self.pat(x) for x in p["ps"]])
        if k in ("deref", "ref"):
            return N(("p" + k,), [self.pat(p["p"])])
        if k == "expr":
            if "lit" in p:
                return N(("plit", repr(p["lit"])))
            if "res" in p:
                return N(("ppath", self.res(p["res"])))
            return N(("pexpr",))
        if k == "range":
            return N(("prange", repr(p.get("lo")), repr(p.get("hi")), p.get("incl")))
        if k == "slice":
            kids = [self.pat(x) for x in p.get("before", [])]
            if "mid" in p:
                kids.append(N(("mid",), [self.pat(p["mid"])]))
            kids += [self.pat(x) for x in p.get("after", [])]
            return N(("pslice", len(p.get("before", []))), kids)
        if k == "guard":
            return N(("pguard",), [self.pat(p["p"]), self.expr(p["guard"])])
        return N(("p?", k))

    def res(self, r):
        if r is None:
            return None
        if r.get("r") == "def":
            return self.npath(r["path"])
        if r.get("r") == "local":
            return ("local", self.var(r["var"]))
        return (r.get("r"), self.npath(r.get("path")))

    # -- expressions

    def is_debug_assert(self, node):
        return any(m in DEBUG_ASSERT for m in self.c.macros(node))

    def stmts(self, b):
        out = []
        for st in b.get("stmts", []):
            if st["k"] == "let":
                if self.drop_debug_assert and "init" in st and self.is_debug_assert(st["init"]):
                    continue
                # evaluate init before binding the pattern (scoping order)
                init = self.expr(st["init"]) if "init" in st else N(("noinit",))
                els = self.block(st["els"]) if "els" in st else N(("noels",))
                out.append(N(("let",), [self.pat(st["pat"]), init, els], self.c.loc(st.get("sp"))))
            elif st["k"] == "expr":
                if self.drop_debug_assert and self.is_debug_assert(st["e"]):
                    continue
                out.append(self.expr(st["e"]))
            elif st["k"] == "item":
                out.append(N(("item", st["id"].rsplit("::", 1)[-1])))
        return out

    def block(self, b, body_level=False):
        ss = self.stmts(b)
        tail = self.expr(b["tail"]) if "tail" in b else None
        if body_level and tail is None and ss and ss[-1].t == ("ret",) and ss[-1].kids:
            tail = ss.pop().kids[0]
        if not ss and tail is not None and "label" not in b:
            return tail
        kids = ss + ([N(("tail",), [tail])] if tail is not None else [])
        return N(("block", b.get("label") is not None), kids, self.loc(b))

    def expr(self, e):
        k = e["k"]
        L = self.loc(e)
        if k == "block":
            return self.block(e)
        if k == "local":
            return N(("local", self.var(e["var"])), (), L)
        if k == "def":
            if "path" in e:
                return N(("def", self.npath(e["path"]), self.nargs(e.get("args"))), (), L)
            return N(("def", repr(self.res(e.get("res")))), (), L)
        if k == "lit":
            return N(("lit", repr(e["v"])), (), L)
        if k == "call":
            if e.get("callee"):
                return N(("call",) + self.callee(e["callee"]), [self.expr(a) for a in e["args"]], L)
            return N(("callv",), [self.expr(e["f"])] + [self.expr(a) for a in e["args"]], L)
        if k == "mcall":
            if e.get("callee"):
                return N(("call",) + self.callee(e["callee"]), [self.expr(e["recv"])] + [self.expr(a) for a in e["args"]], L)
            return N(("mcall", e["name"]), [self.expr(e["recv"])] + [self.expr(a) for a in e["args"]], L)
        if k in ("binary", "assign_op"):
            return N((k, e["op"]), [self.expr(e["l"]), self.expr(e["r"])], L)
        if k == "unary":
            return N((k, e["op"]), [self.expr(e["e"])], L)
        if k == "index":
            return N((k,), [self.expr(e["base"]), self.expr(e["idx"])], L)
        if k in ("tuple", "array"):
            return N((k,), [self.expr(x) for x in e["es"]], L)
        if k == "cast":
            return N((k, self.npath(self.c.tys(e.get("ty")))), [self.expr(e["e"])], L)
        if k in ("use", "type_ascr", "binder_cast", "become", "yield", "repeat"):
            return N((k,), [self.expr(e["e"])], L)
        if k == "let_cond":
            init = self.expr(e["init"])
            return N((k,), [self.pat(e["pat"]), init], L)
        if k == "if":
            kids = [self.expr(e["cond"]), self.expr(e["then"])]
            if "else" in e:
                kids.append(self.expr(e["else"]))
            return N((k,), kids, L)
        if k == "loop":
            return N((k, e["src"]), [self.block(e["body"])], L)
        if k == "match":
            kids = [self.expr(e["scrut"])]
            for arm in e["arms"]:
                ak = [self.pat(arm["pat"])]
                if "guard" in arm:
                    ak.append(N(("guard",), [self.expr(arm["guard"])]))
                ak.append(self.expr(arm["body"]))
                kids.append(N(("arm",), ak))
            return N((k, e["src"]), kids, L)
        if k == "closure":
            ps = [self.pat(p) for p in e["params"]]
            return N((k, len(ps)), ps + [self.expr(e["body"])], L)
        if k == "assign":
            return N((k,), [self.expr(e["l"]), self.expr(e["r"])], L)
        if k == "field":
            return N((k, e["name"]), [self.expr(e["base"])], L)
        if k == "addr_of":
            return N((k, e["mut"]), [self.expr(e["e"])], L)
        if k == "break":
            return N((k, "label" in e), [self.expr(e["e"])] if "e" in e else [], L)
        if k == "continue":
            return N((k,), (), L)
        if k == "ret":
            return N((k,), [self.expr(e["e"])] if "e" in e else [], L)
        if k == "struct":
            return N((k, repr(self.res(e["res"]))) + tuple(f["name"] for f in e["fields"]),
                     [self.expr(f["e"]) for f in e["fields"]] + ([N(("base",), [self.expr(e["base"])])] if "base" in e else []), L)
        return N((k,), (), L)

    def body(self, b):
        self.vars = {}
        ps = [self.pat(p) for p in b["params"]]
        v = b["value"]
        val = self.block(v, body_level=True) if v["k"] == "block" else self.expr(v)
        return N(("fn", len(ps)), ps + [val], self.loc(v))


def compare(crate_a, body_a, crate_b, body_b, crate_map_a=None, renames_a=None, crate_map_b=None, renames_b=None,
            hook_a=None, hook_b=None):
    """Returns (equal, size, diff) where diff is None or (node_a, node_b)."""
    na = Normalizer(crate_a, crate_map_a, renames_a, path_hook=hook_a).body(body_a)
    nb = Normalizer(crate_b, crate_map_b, renames_b, path_hook=hook_b).body(body_b)
    if na == nb:
        return True, na.size(), None
    return False, na.size(), first_diff(na, nb)
