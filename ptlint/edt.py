"""Effect decision trees (EDT) of combinator functions, built from HIR-lite.

A small path-sensitive, continuation-passing evaluator. Tracked values: cursors
(symbolic), outcomes of events (concrete on each path because events fork where
they happen), loop indices, const generics, stack / tracker handles, closures.
Everything else is a pure term that flows without being interpreted.

Alphabet (events) = public API only: `Input` cursor primitives, `pest::Stack`
operations, `Tracker` methods, `TypedNode` / `NeverFailedTypedNode` /
`ParsableTypedNode` child matches. Crate-local helpers are inlined.
"""
import re
import sys

from .hir import strip_generics, walk, pat_binds

sys.setrecursionlimit(20000)

INPUT = "pest_typed::input::Input::"
STACK = "pest::stack::Stack::"
TRACKER = "pest_typed::tracker::Tracker::"
TN = "pest_typed::typed_node::TypedNode::"
NF = "pest_typed::typed_node::NeverFailedTypedNode::"
PTN = "pest_typed::typed_node::ParsableTypedNode::"
NFPTN = "pest_typed::typed_node::NeverFailedParsableTypedNode::"

NONE = ("none",)
UNIT = ("tup", ())


def some(v):
    return ("some", v)


def cur(sym):
    return ("cur", sym)


def pure(op, args=(), ty=None):
    return ("pure", op, tuple(args), ty)


def is_tracked(v):
    """Does the value contain a cursor, handle, reference to a cursor variable, or closure?"""
    if not isinstance(v, tuple) or not v:
        return False
    t = v[0]
    if t in ("cur", "stack", "tracker", "refvar", "clo"):
        return True
    if t == "some":
        return is_tracked(v[1])
    if t == "tup":
        return any(is_tracked(x) for x in v[1])
    if t == "struct":
        return any(is_tracked(x) for _, x in v[2])
    return False


class _NotAFlag(Exception):
    pass


def _same_tree(a, b):
    """Structural equality of two raw trees without events (ids differ between two evaluations of one continuation)."""
    if isinstance(a, dict) and isinstance(b, dict):
        if a.get("n") != b.get("n") or a.get("n") in ("ev", "loop"):
            return False
        ka = {x for x in a if x not in ("at",)}
        kb = {x for x in b if x not in ("at",)}
        return ka == kb and all(_same_tree(a[x], b[x]) for x in ka)
    if isinstance(a, (list, tuple)) and isinstance(b, (list, tuple)):
        return len(a) == len(b) and all(_same_tree(x, y) for x, y in zip(a, b))
    return a == b


def _mentions_exit(t, lid):
    if isinstance(t, dict):
        return any(_mentions_exit(v, lid) for v in t.values())
    if isinstance(t, (list, tuple)):
        if len(t) == 3 and t[0] == "exit" and t[1] == lid:
            return True
        return any(_mentions_exit(x, lid) for x in t)
    return False


class Unsupported(Exception):
    pass


class Clo:
    """Closure value: evaluated in the store current at call time (variables are unique per binding)."""
    __slots__ = ("node", "env")

    def __init__(self, node, env):
        self.node = node
        self.env = env


class Env:
    def __init__(self, crate, subst, self_ty, fn_id, depth, kret, loops=None):
        self.crate = crate
        self.subst = subst
        self.self_ty = self_ty
        self.fn_id = fn_id
        self.depth = depth
        self.kret = kret
        self.loops = loops or {}

    def with_(self, **kw):
        e = Env(self.crate, self.subst, self.self_ty, self.fn_id, self.depth, self.kret, dict(self.loops))
        for k, v in kw.items():
            setattr(e, k, v)
        return e


class Evaluator:
    def __init__(self, crates, max_depth=5, inline_self_calls=True):
        """crates: list of facts.Crate whose bodies may be inlined (first = primary)."""
        self.crates = crates
        self.max_depth = max_depth
        self.counter = 0
        self.unmodelled = []
        self.inlined = []
        self.bodies = {}
        self.items = {}
        for c in crates:
            for bid, bs in c.bodies.items():
                self.bodies.setdefault(bid, (c, bs[0]))
            for iid, its in c.items.items():
                self.items.setdefault(iid, (c, its[0]))

    def fresh(self):
        self.counter += 1
        return self.counter

    # ------------------------------------------------------------------ types

    def render(self, crate, tyid, subst):
        t = crate.types[tyid]
        return self._render(crate, t, subst)

    def _garg(self, crate, a, subst):
        if "t" in a:
            return self.render(crate, a["t"], subst)
        if "c" in a:
            return subst.get(a["c"], a["c"])
        return None

    def _render(self, crate, t, subst):
        k = t["k"]
        if k == "param":
            return subst.get(t["name"], t["name"])
        if k in ("adt", "fndef", "alias"):
            args = [self._garg(crate, a, subst) for a in t.get("args", [])]
            args = [a for a in args if a is not None]
            return t["path"] + ("<" + ", ".join(args) + ">" if args else "")
        if k == "ref":
            return ("&mut " if t["mut"] else "&") + self.render(crate, t["inner"], subst)
        if k == "tuple":
            return "(" + ", ".join(self.render(crate, x, subst) for x in t["elems"]) + ")"
        if k == "array":
            return "[" + self.render(crate, t["elem"], subst) + "; " + subst.get(t["len"], t["len"]) + "]"
        if k == "slice":
            return "[" + self.render(crate, t["elem"], subst) + "]"
        if k == "closure":
            return "{closure}"
        s = t["s"]
        return s

    def callee_args(self, env, callee):
        return [self._garg(env.crate, a, env.subst) for a in callee.get("args", [])]

    # ------------------------------------------------------------------ entry

    def eval_fn(self, fn_id, crate=None):
        """EDT of a function, parameters bound by role."""
        if fn_id not in self.bodies:
            raise Unsupported("no body for " + fn_id)
        c, body = self.bodies[fn_id]
        item = self.items.get(fn_id, (None, None))[1]
        self.counter = 0
        st = {}
        roles = []
        for p, tyid in zip(body["params"], (item or {}).get("inputs", [None] * len(body["params"]))):
            tys = c.tys(tyid) if tyid is not None else ""
            role = self.role_of(c, item, tyid, tys)
            roles.append(role)
            self.bind_param(p, role, st)
        self_ty = None
        if item and item.get("parent") and item.get("parent_kind", "").startswith("Impl"):
            pit = self.items.get(item["parent"])
            if pit:
                self_ty = self.render(pit[0], pit[1]["self_ty"], {})
        env = Env(c, {}, self_ty, fn_id, 0, None)
        env.kret = lambda v, s: {"n": "leaf", "kind": "ret", "val": v}
        tree = self.ev(body["value"], st, env, lambda v, s: env.kret(v, s))
        return tree

    def role_of(self, c, item, tyid, tys):
        if tyid is None:
            return ("param", "?")
        t = c.types[tyid]
        if "pest::stack::Stack<" in tys:
            return ("stack", 0)
        if "pest_typed::tracker::Tracker<" in tys:
            return ("tracker", 0)
        if t["k"] == "param" and item is not None:
            for pr in item.get("preds", []):
                if pr["trait"] == "pest_typed::input::Input" and c.tys(pr["self"]) == tys:
                    return cur("IN")
        return None

    def bind_param(self, p, role, st):
        binds = list(pat_binds(p))
        if role is not None and len(binds) == 1 and p.get("k") == "bind":
            st[binds[0]["var"]] = role
        else:
            for b in binds:
                st[b["var"]] = ("param", b["name"])

    # ------------------------------------------------------------------ helpers

    def loc(self, env, e):
        return env.crate.loc(e.get("sp"))

    def ev_list(self, es, st, env, k, acc=None):
        acc = acc or []
        if not es:
            return k(acc, st)
        return self.ev(es[0], st, env, lambda v, s: self.ev_list(es[1:], s, env, k, acc + [v]))

    def place_of(self, e, st):
        k = e["k"]
        if k == "local":
            v = st.get(e["var"])
            if isinstance(v, tuple) and v and v[0] == "refvar":
                return v[1]
            return e["var"]
        if k == "addr_of":
            return self.place_of(e["e"], st)
        if k == "unary" and e["op"] == "*":
            return self.place_of(e["e"], st)
        return None

    def curs(self, v):
        if isinstance(v, tuple) and v and v[0] == "cur":
            return v[1]
        return None

    def mk_ev(self, op, args, on, loc):
        return {"n": "ev", "id": self.fresh(), "op": op, "args": tuple(args), "on": on, "at": loc}

    def fork(self, op, args, on, loc, kok, kfail):
        n = self.mk_ev(op, args, on, loc)
        n["ok"] = kok(n["id"])
        n["fail"] = kfail(n["id"])
        return n

    def lin(self, op, args, on, loc, knext):
        n = self.mk_ev(op, args, on, loc)
        n["next"] = knext(n["id"])
        return n

    def unm(self, what, loc, knext):
        self.unmodelled.append((what, loc))
        return {"n": "unm", "what": what, "at": loc, "next": knext()}

    # ------------------------------------------------------------------ patterns

    def match_pat(self, p, v, st):
        """True/False/None(unknown); binds into st (mutated copy expected)."""
        k = p["k"]
        if k in ("wild", "never"):
            return True
        if k == "bind":
            st[p["var"]] = v
            if "sub" in p:
                return self.match_pat(p["sub"], v, st)
            return True
        if k in ("ref", "deref"):
            return self.match_pat(p["p"], v, st)
        vt = v[0] if isinstance(v, tuple) and v else None
        if k == "tuple":
            if vt == "tup" and len(v[1]) == len(p["ps"]) and p.get("dotdot") is None:
                res = True
                for sp, sv in zip(p["ps"], v[1]):
                    r = self.match_pat(sp, sv, st)
                    if r is False:
                        return False
                    if r is None:
                        res = None
                return res
            self.bind_opaque(p, v, st)
            return True if vt in ("pure", "opaque", "param") else None
        if k == "tstruct":
            path = p["res"].get("path", "")
            if path.endswith("Option::Some"):
                if vt == "some":
                    return self.match_pat(p["ps"][0], v[1], st) if p["ps"] else True
                if vt == "none":
                    return False
            elif path.endswith("Result::Ok") or path.endswith("Result::Err"):
                want = "ok" if path.endswith("Ok") else "err"
                if vt in ("ok", "err"):
                    if vt != want:
                        return False
                    return self.match_pat(p["ps"][0], v[1], st) if p["ps"] else True
            self.bind_opaque(p, v, st)
            return None
        if k == "expr":
            if "res" in p:
                path = p["res"].get("path", "")
                if path.endswith("Option::None"):
                    if vt == "none":
                        return True
                    if vt == "some":
                        return False
                return None
            if "lit" in p and p["lit"] is not None and "bool" in p["lit"]:
                if vt == "bool":
                    return v[1] == p["lit"]["bool"]
                return None
            return None
        if k == "struct" and p["res"].get("path", "").endswith(("Option::Some", "Option::None")):
            path = p["res"]["path"]
            if path.endswith("Some"):
                if vt == "some":
                    return self.match_pat(p["fields"][0]["p"], v[1], st) if p["fields"] else True
                if vt == "none":
                    return False
            else:
                if vt == "none":
                    return True
                if vt == "some":
                    return False
            self.bind_opaque(p, v, st)
            return None
        if k == "struct":
            if vt == "struct":
                d = dict(v[2])
                res = True
                for f in p["fields"]:
                    if f["name"] in d:
                        r = self.match_pat(f["p"], d[f["name"]], st)
                        if r is False:
                            return False
                        if r is None:
                            res = None
                    else:
                        self.bind_opaque(f["p"], v, st)
                return res
            self.bind_opaque(p, v, st)
            return True if vt in ("pure", "opaque", "param") else None
        if k == "or":
            unknown = False
            for sp in p["ps"]:
                r = self.match_pat(sp, v, st)
                if r is True:
                    return True
                if r is None:
                    unknown = True
            return None if unknown else False
        self.bind_opaque(p, v, st)
        return None

    def bind_opaque(self, p, v, st):
        for b in pat_binds(p):
            st[b["var"]] = pure("part_of", (v,)) if v is not None else ("opaque", b["name"])

    def pat_label(self, p):
        k = p["k"]
        if k in ("tstruct", "struct"):
            return p["res"].get("path", "?").rsplit("::", 1)[-1]
        if k == "expr":
            if "res" in p:
                return p["res"].get("path", "?").rsplit("::", 1)[-1]
            return repr(p.get("lit"))
        if k in ("ref", "deref"):
            return self.pat_label(p["p"])
        if k == "bind" and "sub" in p:
            return self.pat_label(p["sub"])
        return "_"

    # ------------------------------------------------------------------ conditions

    def cond_nf(self, v):
        """(negated, atom) for opaque boolean values."""
        if isinstance(v, tuple) and v and v[0] == "pure" and isinstance(v[1], str):
            op = v[1]
            if op == "un:!":
                n, a = self.cond_nf(v[2][0])
                return (not n, a)
            if op.startswith("bin:"):
                o = op[4:]
                a, b = v[2]
                zero = ("lit", "0")

                def is_zero(x):
                    return x == zero
                if o in ("==", "!="):
                    neg = (o == "!=")
                    if is_zero(b):
                        return (neg, ("zero", a))
                    if is_zero(a):
                        return (neg, ("zero", b))
                    x, y = sorted([a, b], key=repr)
                    return (neg, ("eq", x, y))
                if o == "<":
                    if is_zero(a):        # 0 < b  == b != 0
                        return (True, ("zero", b))
                    return (False, ("lt", a, b))
                if o == ">":
                    if is_zero(b):        # a > 0 == a != 0 (unsigned)
                        return (True, ("zero", a))
                    return (False, ("lt", b, a))
                if o == ">=":             # a >= b == !(a < b)
                    return (True, ("lt", a, b))
                if o == "<=":             # a <= b == !(b < a)
                    return (True, ("lt", b, a))
        return (False, ("val", v))

    def branch(self, v, st, kthen, kelse):
        if isinstance(v, tuple) and v and v[0] == "bool":
            return kthen(st) if v[1] else kelse(st)
        neg, atom = self.cond_nf(v)
        known = st.get("__conds", {})
        if atom in known:
            val = known[atom] != neg
            return kthen(st) if val else kelse(st)
        st_t = dict(st)
        st_t["__conds"] = dict(known)
        st_t["__conds"][atom] = not neg       # then-branch: v is true  => atom == not neg
        st_e = dict(st)
        st_e["__conds"] = dict(known)
        st_e["__conds"][atom] = neg
        t = kthen(st_t)
        e = kelse(st_e)
        if neg:
            t, e = e, t
        return {"n": "opq", "cond": atom, "arms": [("true", t), ("false", e)]}

    # ------------------------------------------------------------------ closures / inlining

    def apply(self, f, args, st, env, k, loc):
        if isinstance(f, Clo):
            node = f.node
            cenv = f.env.with_(kret=k)
            st2 = dict(st)
            for p, a in zip(node["params"], args):
                if self.match_pat(p, a, st2) is False:
                    raise Unsupported("closure param pattern mismatch")
            return self.ev(node["body"], st2, cenv, k)
        if isinstance(f, tuple) and f and f[0] == "fn":
            # plain fn item used as a value (e.g. a predicate): opaque pure result
            return k(pure("call:" + f[1], args), st)
        if isinstance(f, tuple) and f and f[0] == "param" and any(is_tracked(a) for a in args):
            # a closure parameter of the function under analysis (standalone analysis of a helper):
            # it may succeed or fail; what it does to the tracked state is its own business
            return self.fork("CALLPARAM", (f[1],), None, loc,
                             lambda eid: k(some(pure("result", (("ev", eid),))), st), lambda eid: k(NONE, st))
        if any(is_tracked(a) for a in args):
            return self.unm("call through opaque function value with tracked arguments", loc,
                            lambda: k(("opaque", "result"), st))
        return k(pure("callv", [f] + list(args)), st)

    def inline(self, target_id, garg_strs, args, st, env, k, loc):
        c, body = self.bodies[target_id]
        item = self.items[target_id][1]
        gens = [g for g in item.get("generics", []) if g["kind"] != "lifetime"]
        subst = {}
        gs = [g for g in garg_strs if g is not None]
        if len(gs) == len(gens):
            for g, a in zip(gens, gs):
                subst[g["name"]] = a
        else:
            # lifetimes were dropped from garg_strs; tolerate arity mismatch by name-less binding
            for g, a in zip(gens, gs):
                subst[g["name"]] = a
        self_ty = None
        if item.get("parent") and item.get("parent_kind", "").startswith("Impl"):
            pit = self.items.get(item["parent"])
            if pit and "self_ty" in pit[1]:
                self_ty = self.render(pit[0], pit[1]["self_ty"], subst)
            elif pit:
                # an inherent impl shares its id with the type it is for (`impl NEWLINE { fn helper .. }`): the type's path is Self
                self_ty = item["parent"]
        self.inlined.append(target_id)
        cenv = Env(c, subst, self_ty, target_id, env.depth + 1, k)
        st2 = dict(st)
        for p, a in zip(body["params"], args):
            if self.match_pat(p, a, st2) is False:
                raise Unsupported("param pattern mismatch inlining " + target_id)
        return self.ev(body["value"], st2, cenv, k)

    def creates_state(self, node):
        for n in walk(node):
            c = n.get("callee")
            if c:
                p = strip_generics(c["path"])
                if p in (STACK + "new", TRACKER + "new") or p.endswith("AsInput::as_input"):
                    return True
        return False

    def has_events(self, node):
        for n in walk(node):
            c = n.get("callee")
            if c:
                p = strip_generics(c["path"])
                if p.startswith((INPUT, STACK, TRACKER, TN, NF, PTN)):
                    return True
        return False

    # ------------------------------------------------------------------ assigned variables (loop carried)

    def assigned_vars(self, node, st):
        out = []

        def add(v):
            if v is not None and v not in out:
                out.append(v)
        for n in walk(node):
            k = n["k"]
            if k in ("assign", "assign_op"):
                add(self.place_of(n["l"], st))
            elif k == "addr_of" and n.get("mut"):
                add(self.place_of(n["e"], st))
            elif k == "mcall":
                r = n["recv"]
                adj = r.get("adj") or []
                if any(a["k"] == "borrow_mut" for a in adj) and r["k"] == "local":
                    add(self.place_of(r, st))
        return out

    def do_loop(self, rng, scan, st, env, k, body_fn, loc):
        """Loop node.  Cursors assigned in the body are loop-carried.  Other assigned locals are first treated as *exit flags*
        (`let mut too_few = false; for .. { .. too_few = c; break }; if too_few {..}`): they keep their pre-loop value inside
        the loop (verified at every CONTINUE), and a BREAK that leaves with another value continues into a copy of the code
        after the loop specialised for that value — whose parts that equal the ordinary continuation become the BREAK again.
        If a local does change from one iteration to the next, it is opaque (as before)."""
        try:
            return self._do_loop(rng, scan, st, env, k, body_fn, loc, flags=True)
        except _NotAFlag:
            return self._do_loop(rng, scan, st, env, k, body_fn, loc, flags=False)

    def _do_loop(self, rng, scan, st, env, k, body_fn, loc, flags):
        lid = self.fresh()
        assigned = [v for v in self.assigned_vars(scan, st) if v in st]
        carried = [v for v in assigned if isinstance(st[v], tuple) and st[v] and st[v][0] == "cur"]
        others = [v for v in assigned if v not in carried and not (isinstance(st[v], tuple) and st[v] and st[v][0] in ("stack", "tracker"))]
        # exit-flag candidates: plain boolean / literal locals; everything else that is assigned is opaque inside and after the loop
        flagvars = [v for v in others if flags and isinstance(st[v], tuple) and st[v] and st[v][0] in ("bool", "lit")]
        opaque = [v for v in others if v not in flagvars]
        st_body = dict(st)
        for j, v in enumerate(carried):
            st_body[v] = cur(("loop", lid, j))
        for v in opaque:
            st_body[v] = ("opaque", "loopvar")
        entry = [st[v] for v in carried]
        entry_flags = tuple(st[v] for v in flagvars)

        def after_with(vals):
            st_after = dict(st)
            for j, v in enumerate(carried):
                st_after[v] = cur(("exit", lid, j))
            for v in opaque:
                st_after[v] = ("opaque", "loopvar")
            for v, x in zip(flagvars, vals):
                st_after[v] = x
            return k(UNIT, st_after)
        after = after_with(entry_flags)

        def leaf(kind):
            def mk(s):
                lf = {"n": "leaf", "kind": kind, "loop": lid, "upd": tuple(s[v] for v in carried)}
                if not flagvars:
                    return lf
                vals = tuple(s[v] for v in flagvars)
                if vals == entry_flags:
                    return lf
                if kind == "continue":
                    raise _NotAFlag()
                special = after_with(vals)
                return self._exit_merge(special, after, lf, lid)
            return mk
        body = body_fn(st_body, lid, leaf("continue"), leaf("break"))
        return {"n": "loop", "id": lid, "range": rng, "entry": tuple(entry), "body": body, "after": after, "at": loc}

    def _exit_merge(self, special, after, brk, lid):
        """The code after the loop, specialised for the flag values of one BREAK: subtrees equal to the ordinary continuation
        are that BREAK; subtrees that do not look at the loop's exit cursors stay where they are (inside the loop body)."""
        if _same_tree(special, after):
            return brk
        if not _mentions_exit(special, lid):
            return special
        if special["n"] == "opq":
            return {"n": "opq", "cond": special["cond"], "arms": [(lab, self._exit_merge(sub, after, brk, lid)) for lab, sub in special["arms"]]}
        raise _NotAFlag()

    # ------------------------------------------------------------------ expressions

    def ev(self, e, st, env, k):
        kind = e["k"]
        m = getattr(self, "ev_" + kind, None)
        if m is None:
            return k(("opaque", kind), st)
        return m(e, st, env, k)

    def ev_local(self, e, st, env, k):
        return k(st.get(e["var"], ("opaque", e.get("name", "?"))), st)

    def ev_lit(self, e, st, env, k):
        v = e["v"] or {}
        if "bool" in v:
            return k(("bool", v["bool"]), st)
        if "int" in v:
            return k(("lit", v["int"]), st)
        if "str" in v:
            return k(("lit", repr(v["str"])), st)
        if "char" in v:
            return k(("lit", "'" + v["char"] + "'"), st)
        return k(("lit", repr(v)), st)

    def ev_def(self, e, st, env, k):
        kind = e.get("kind", "")
        path = e.get("path")
        if path is None:
            r = e.get("res") or {}
            if r.get("r") == "selfctor":
                return k(pure("Self"), st)
            return k(("opaque", "def"), st)
        base = strip_generics(path)
        if base.endswith("Option::None"):
            return k(NONE, st)
        if kind == "ConstParam":
            name = path.rsplit("::", 1)[-1]
            return k(("constg", env.subst.get(name, name)), st)
        if kind.startswith("AssocConst") or kind.startswith("Const"):
            args = [a for a in self.callee_args(env, e) if a is not None]
            return k(("const", base, tuple(args)), st)
        if kind in ("Fn", "AssocFn"):
            return k(("fn", base), st)
        if kind.startswith("Ctor"):
            return k(pure("ctor:" + base), st)
        return k(("opaque", base), st)

    def ev_block(self, e, st, env, k):
        stmts = e.get("stmts", [])

        def run(i, st):
            if i == len(stmts):
                if "tail" in e:
                    return self.ev(e["tail"], st, env, k)
                return k(UNIT, st)
            s = stmts[i]
            if s["k"] == "let":
                if "init" not in s:
                    for b in pat_binds(s["pat"]):
                        st = dict(st)
                        st[b["var"]] = ("opaque", "uninit")
                    return run(i + 1, st)

                def after_init(v, st2):
                    st3 = dict(st2)
                    r = self.match_pat(s["pat"], v, st3)
                    if r is False and "els" in s:
                        return self.ev(s["els"], st2, env, lambda v2, s2: k(("opaque", "diverged"), s2))
                    if r is None and "els" in s:
                        t = run(i + 1, st3)
                        el = self.ev(s["els"], dict(st2), env, lambda v2, s2: k(("opaque", "diverged"), s2))
                        return {"n": "opq", "cond": ("letelse", self.pat_label(s["pat"]), v),
                                "arms": [("match", t), ("else", el)]}
                    return run(i + 1, st3)
                return self.ev(s["init"], st, env, after_init)
            if s["k"] == "expr":
                return self.ev(s["e"], st, env, lambda v, st2: run(i + 1, st2))
            return run(i + 1, st)
        return run(0, st)

    def ev_tuple(self, e, st, env, k):
        return self.ev_list(e["es"], st, env, lambda vs, s: k(("tup", tuple(vs)), s))

    def ev_array(self, e, st, env, k):
        return self.ev_list(e["es"], st, env, lambda vs, s: k(pure("array", vs), s))

    def ev_struct(self, e, st, env, k):
        fs = e["fields"]
        name = (e.get("res") or {}).get("path") or (e.get("res") or {}).get("r", "?")
        if name and name.startswith("core::ops::range::"):
            return self.ev_list([f["e"] for f in fs], st, env,
                                lambda vs, s: k(("range", name.rsplit("::", 1)[-1], tuple(zip([f["name"] for f in fs], vs))), s))
        return self.ev_list([f["e"] for f in fs], st, env,
                            lambda vs, s: k(("struct", name, tuple(zip([f["name"] for f in fs], vs))), s))

    def ev_field(self, e, st, env, k):
        def f(v, s):
            if isinstance(v, tuple) and v:
                if v[0] in ("struct", "range"):
                    d = dict(v[2])
                    if e["name"] in d:
                        return k(d[e["name"]], s)
                if v[0] == "tup" and e["name"].isdigit() and int(e["name"]) < len(v[1]):
                    return k(v[1][int(e["name"])], s)
            return k(pure("field:" + e["name"], (v,)), s)
        return self.ev(e["base"], st, env, f)

    def ev_addr_of(self, e, st, env, k):
        inner = e["e"]
        if e.get("mut") and inner["k"] == "local":
            v = st.get(inner["var"])
            if isinstance(v, tuple) and v and v[0] == "cur":
                return k(("refvar", inner["var"]), st)
        return self.ev(inner, st, env, k)

    def ev_unary(self, e, st, env, k):
        op = e["op"]

        def f(v, s):
            if op == "*":
                if isinstance(v, tuple) and v and v[0] == "refvar":
                    return k(s.get(v[1]), s)
                return k(v, s)
            if op == "!" and isinstance(v, tuple) and v and v[0] == "bool":
                return k(("bool", not v[1]), s)
            return k(pure("un:" + op, (v,)), s)
        return self.ev(e["e"], st, env, f)

    def ev_binary(self, e, st, env, k):
        op = e["op"]
        if op in ("||", "&&"):
            def after_l(v, s):
                if isinstance(v, tuple) and v and v[0] == "bool":
                    if (op == "||") == v[1]:
                        return k(v, s)
                    return self.ev(e["r"], s, env, k)
                # opaque left operand: short-circuit as a branch
                if op == "||":
                    return self.branch(v, s, lambda s2: k(("bool", True), s2), lambda s2: self.ev(e["r"], s2, env, k))
                return self.branch(v, s, lambda s2: self.ev(e["r"], s2, env, k), lambda s2: k(("bool", False), s2))
            return self.ev(e["l"], st, env, after_l)
        return self.ev(e["l"], st, env,
                       lambda a, s: self.ev(e["r"], s, env, lambda b, s2: k(pure("bin:" + op, (a, b)), s2)))

    def ev_cast(self, e, st, env, k):
        return self.ev(e["e"], st, env, k)

    ev_use = ev_cast
    ev_type_ascr = ev_cast

    def ev_assign(self, e, st, env, k):
        def f(v, s):
            pl = self.place_of(e["l"], s)
            if pl is not None:
                s = dict(s)
                s[pl] = v
            return k(UNIT, s)
        return self.ev(e["r"], st, env, f)

    def ev_assign_op(self, e, st, env, k):
        def f(v, s):
            pl = self.place_of(e["l"], s)
            if pl is not None:
                s = dict(s)
                s[pl] = pure("bin:" + e["op"], (s.get(pl), v))
            return k(UNIT, s)
        return self.ev(e["r"], st, env, f)

    def ev_index(self, e, st, env, k):
        def f(b, s):
            def g(i, s2):
                if isinstance(b, tuple) and b and b[0] == "stack":
                    return self.lin("stack_index", (i,), None, self.loc(env, e),
                                    lambda eid: k(pure("stack_slice", (("ev", eid), i)), s2))
                return k(pure("index", (b, i)), s2)
            return self.ev(e["idx"], s, env, g)
        return self.ev(e["base"], st, env, f)

    def ev_closure(self, e, st, env, k):
        return k(Clo(e, env), st)

    def ev_ret(self, e, st, env, k):
        if "e" in e:
            return self.ev(e["e"], st, env, lambda v, s: env.kret(v, s))
        return env.kret(UNIT, st)

    def ev_break(self, e, st, env, k):
        t = e.get("target")
        if t in env.loops:
            return env.loops[t][0](st)
        raise Unsupported("break to unknown target")

    def ev_continue(self, e, st, env, k):
        t = e.get("target")
        if t in env.loops:
            return env.loops[t][1](st)
        raise Unsupported("continue to unknown target")

    def ev_if(self, e, st, env, k):
        c = e["cond"]
        kelse = (lambda s: self.ev(e["else"], s, env, k)) if "else" in e else (lambda s: k(UNIT, s))
        if c["k"] == "let_cond":
            def f(v, s):
                s2 = dict(s)
                r = self.match_pat(c["pat"], v, s2)
                if r is True:
                    return self.ev(e["then"], s2, env, k)
                if r is False:
                    return kelse(s)
                t = self.ev(e["then"], s2, env, k)
                el = kelse(dict(s))
                return {"n": "opq", "cond": ("iflet", self.pat_label(c["pat"]), v), "arms": [("match", t), ("else", el)]}
            return self.ev(c["init"], st, env, f)
        return self.ev(c, st, env, lambda v, s: self.branch(v, s, lambda s2: self.ev(e["then"], s2, env, k), kelse))

    def ev_match(self, e, st, env, k):
        src = e.get("src")
        if src == "try":
            # `x?` : match Try::branch(x) { Continue(v) => v, Break(r) => return from_residual(r) }
            inner = e["scrut"]["args"][0]

            def f(v, s):
                if isinstance(v, tuple) and v:
                    if v[0] == "some":
                        return k(v[1], s)
                    if v[0] == "none":
                        return env.kret(NONE, s)
                    if v[0] == "ok":
                        return k(v[1], s)
                    if v[0] == "err":
                        return env.kret(v, s)
                t = k(pure("try_value", (v,)), dict(s))
                el = env.kret(pure("try_residual", (v,)), dict(s))
                return {"n": "opq", "cond": ("try", v), "arms": [("continue", t), ("break", el)]}
            return self.ev(inner, st, env, f)
        if src == "for":
            return self.ev_for(e, st, env, k)

        def f(v, s):
            arms = e["arms"]
            # arms with guards whose pattern matches definitely: `P if g => a, rest..` is `if g { a } else { rest.. }`
            if any("guard" in a for a in arms):
                def from_arm(i, s_):
                    if i == len(arms):
                        return k(("opaque", "nomatch"), s_)
                    arm = arms[i]
                    s2 = dict(s_)
                    r = self.match_pat(arm["pat"], v, s2)
                    if r is False:
                        return from_arm(i + 1, s_)
                    if r is not True:
                        return None
                    if "guard" not in arm:
                        return self.ev(arm["body"], s2, env, k)

                    def kg(gv, sg):
                        els = lambda s3: from_arm(i + 1, {**s_, **{kk: vv for kk, vv in s3.items() if kk == "__conds"}})
                        return self.branch(gv, sg, lambda s3: self.ev(arm["body"], s3, env, k), els)
                    return self.ev(arm["guard"], s2, env, kg)
                definite = True
                for arm in arms:
                    if self.match_pat(arm["pat"], v, dict(s)) not in (True, False):
                        definite = False
                if definite:
                    return from_arm(0, s)
            pending = []
            for arm in arms:
                s2 = dict(s)
                r = self.match_pat(arm["pat"], v, s2)
                if r is False:
                    continue
                if "guard" in arm:
                    # guards: evaluate as opaque branch
                    pending.append((arm, s2, True))
                    continue
                if r is True and not pending:
                    return self.ev(arm["body"], s2, env, k)
                pending.append((arm, s2, False))
                if r is True:
                    break
            if not pending:
                return k(("opaque", "nomatch"), s)
            out = []
            for arm, s2, guarded in pending:
                lab = self.pat_label(arm["pat"]) + (" if .." if guarded else "")
                out.append((lab, self.ev(arm["body"], s2, env, k)))
            return {"n": "opq", "cond": ("match", v), "arms": out}
        return self.ev(e["scrut"], st, env, f)

    def ev_for(self, e, st, env, k):
        it_expr = e["scrut"]["args"][0] if e["scrut"].get("args") else e["scrut"]
        loop = e["arms"][0]["body"]
        while loop["k"] == "block" and not loop.get("stmts") and "tail" in loop:
            loop = loop["tail"]
        if loop["k"] != "loop":
            raise Unsupported("for desugaring shape")
        lb = loop["body"]
        inner = lb.get("tail") or (lb["stmts"][0]["e"] if lb.get("stmts") else None)
        if inner is None or inner["k"] != "match":
            raise Unsupported("for desugaring shape (inner match)")
        some_arm = None
        some_pat = None
        for arm in inner["arms"]:
            ap = arm["pat"]
            if ap["k"] == "tstruct" and ap["ps"]:
                some_arm, some_pat = arm, ap["ps"][0]
            elif ap["k"] == "struct" and ap["res"].get("path", "").endswith("Option::Some") and ap["fields"]:
                some_arm, some_pat = arm, ap["fields"][0]["p"]
        if some_arm is None:
            raise Unsupported("for desugaring shape (Some arm)")
        loc = self.loc(env, e)

        def with_iter(itv, s):
            if isinstance(itv, tuple) and itv and itv[0] == "pure" and itv[1] == "default" and \
                    str(itv[3] or "").startswith("core::slice::iter::Iter"):
                # `slice::Iter::default()` is the empty iterator: the body never runs
                return k(UNIT, s)
            rng = ("iter", itv)
            if isinstance(itv, tuple) and itv and itv[0] == "range":
                rng = ("range", itv[1], itv[2])

            def body_fn(st_body, lid, kcont, kbreak):
                lenv = env.with_()
                lenv.loops[loop["id"]] = (kbreak, kcont)
                s2 = dict(st_body)
                elem = ("idx", lid) if rng[0] == "range" else pure("elem", (("loopid", lid),))
                self.match_pat(some_pat, elem, s2)
                return self.ev(some_arm["body"], s2, lenv, lambda v, s3: kcont(s3))
            return self.do_loop(rng, some_arm["body"], s, env, k, body_fn, loc)
        return self.ev(it_expr, st, env, with_iter)

    def counter_loop(self, e, st):
        """`while i < E { body; i += 1 }` with `i` a plain local counter that the body neither assigns nor skips over with `continue`:
        returns (var of i, node of E, body statements without the increment) — the loop is `for i in <i's value>..E { body }`."""
        b = e["body"]
        inner = b.get("tail") if not b.get("stmts") else None
        if inner is None or inner["k"] != "if" or "else" not in inner:
            return None
        cond = inner["cond"]
        if not (cond["k"] == "binary" and cond["op"] == "<" and cond["l"]["k"] == "local"):
            return None
        var = cond["l"]["var"]
        if not (isinstance(st.get(var), tuple) and st[var] and st[var][0] == "lit"):
            return None
        els = inner["else"]
        brk = els.get("tail") if els["k"] == "block" and not els.get("stmts") else (els["stmts"][0].get("e") if els["k"] == "block" and len(els.get("stmts", [])) == 1 else els)
        if not (brk and brk["k"] == "break"):
            return None
        then = inner["then"]
        stmts = then.get("stmts", []) if then["k"] == "block" else []
        if not stmts or "tail" in then:
            return None
        last = stmts[-1]
        inc = last.get("e") if last["k"] == "expr" else None
        if not (inc and inc["k"] == "assign_op" and inc["op"] == "+=" and inc["l"]["k"] == "local" and inc["l"]["var"] == var
                and inc["r"]["k"] == "lit" and (inc["r"]["v"] or {}).get("int") == "1"):
            return None
        rest = {"k": "block", "unsafe": False, "stmts": stmts[:-1]}
        for n in walk(rest):
            if n["k"] in ("assign", "assign_op") and n["l"]["k"] == "local" and n["l"]["var"] == var:
                return None
            if n["k"] == "addr_of" and n.get("mut") and n["e"]["k"] == "local" and n["e"]["var"] == var:
                return None
            if n["k"] == "continue" and n.get("target") in (None, e.get("id")):
                return None
        # the bound must be loop-invariant and free of effects: constants, literals and locals the body does not assign
        assigned = {n["l"]["var"] for n in walk(rest) if n["k"] in ("assign", "assign_op") and n["l"]["k"] == "local"}
        assigned |= {n["e"]["var"] for n in walk(rest) if n["k"] == "addr_of" and n.get("mut") and n["e"]["k"] == "local"}
        for n in walk(cond["r"]):
            if n["k"] == "local" and (n["var"] == var or n["var"] in assigned):
                return None
            if n["k"] not in ("local", "lit", "def", "cast", "use", "field", "block"):
                return None
        return var, cond["r"], rest

    def ev_loop(self, e, st, env, k):
        loc = self.loc(env, e)
        cl = self.counter_loop(e, st)
        if cl is not None:
            var, bound, rest = cl

            def with_bound(bv, s):
                rng = ("range", "Range", (("start", s[var]), ("end", bv)))

                def body_fn(st_body, lid, kcont, kbreak):
                    lenv = env.with_()
                    lenv.loops[e["id"]] = (kbreak, kcont)
                    s2 = dict(st_body)
                    s2[var] = ("idx", lid)
                    return self.ev(rest, s2, lenv, lambda v, s3: kcont(s3))

                def after(v, s2):
                    s3 = dict(s2)
                    s3[var] = ("opaque", "counter")
                    return k(v, s3)
                return self.do_loop(rng, rest, s, env, after, body_fn, loc)
            return self.ev(bound, st, env, with_bound)

        def body_fn(st_body, lid, kcont, kbreak):
            lenv = env.with_()
            lenv.loops[e["id"]] = (kbreak, kcont)
            return self.ev(e["body"], st_body, lenv, lambda v, s: kcont(s))
        # `while c {}`, `while let p = e {}` and `loop { if !c { break } }` are the same loop: no source label in the tree
        return self.do_loop(("loop",), e["body"], st, env, k, body_fn, loc)

    def ev_let_cond(self, e, st, env, k):
        # bare `let` condition outside if (let chains): treat as opaque
        return self.ev(e["init"], st, env, lambda v, s: k(pure("let", (v,)), s))

    # ------------------------------------------------------------------ calls

    def ev_call(self, e, st, env, k):
        callee = e.get("callee")
        loc = self.loc(env, e)
        if callee is None:
            return self.ev(e["f"], st, env,
                           lambda f, s: self.ev_list(e["args"], s, env, lambda vs, s2: self.apply(f, vs, s2, env, k, loc)))
        base = strip_generics(callee["path"])
        if base in ("core::ops::function::FnOnce::call_once", "core::ops::function::FnMut::call_mut",
                    "core::ops::function::Fn::call"):
            return self.ev(e["f"], st, env,
                           lambda f, s: self.ev_list(e["args"], s, env, lambda vs, s2: self.apply(f, vs, s2, env, k, loc)))
        return self.dispatch(e, callee, base, None, e["args"], st, env, k)

    def ev_mcall(self, e, st, env, k):
        callee = e.get("callee")
        if callee is None:
            return k(("opaque", "mcall"), st)
        base = strip_generics(callee["path"])
        return self.dispatch(e, callee, base, e["recv"], e["args"], st, env, k)

    def dispatch(self, e, callee, base, recv, args, st, env, k):
        loc = self.loc(env, e)
        all_args = ([recv] if recv is not None else []) + list(args)
        # ---- Input cursor primitives (receiver is a place)
        if base.startswith(INPUT):
            return self.input_call(e, callee, base[len(INPUT):], all_args, st, env, k)
        return self.ev_list(all_args, st, env, lambda vs, s: self.call_values(e, callee, base, all_args, vs, s, env, k))

    def input_call(self, e, callee, name, all_args, st, env, k):
        loc = self.loc(env, e)
        recv = all_args[0]
        MUT = ("match_string", "match_insensitive", "skip_until", "skip", "match_range", "match_char_by", "next")
        if name in MUT:
            def after_recv(rv, s0):
                place = self.place_of(recv, s0)
                if isinstance(rv, tuple) and rv and rv[0] == "refvar":
                    place = rv[1]

                def with_args(vs, s):
                    if place is None or self.curs(s.get(place)) is None:
                        return self.unm("cursor primitive %s on an untracked place" % name, loc,
                                        lambda: k(("opaque", name), s))
                    on = self.curs(s[place])

                    def adv(eid, s_):
                        s2 = dict(s_)
                        s2[place] = cur(("out", eid))
                        return s2
                    if name == "match_char_by":
                        f = vs[0]
                        # no char -> false; char c -> f(c) decides
                        n = self.mk_ev("peek_char", (), on, loc)
                        eid = n["id"]
                        c = pure("char", (("ev", eid),))

                        def decided(v, s_):
                            if isinstance(v, tuple) and v and v[0] == "bool":
                                return k(("bool", True), adv(eid, s_)) if v[1] else k(("bool", False), s_)
                            return self.branch(v, s_, lambda s2: k(("bool", True), adv(eid, s2)),
                                               lambda s2: k(("bool", False), s2))
                        n["ok"] = self.apply(f, [c], s, env, decided, loc)
                        n["fail"] = k(("bool", False), s)
                        return n
                    if name == "next":
                        return self.fork("next", (), on, loc,
                                         lambda eid: k(some(pure("char", (("ev", eid),))), adv(eid, s)),
                                         lambda eid: k(NONE, s))
                    if name == "skip_until":
                        return self.fork("skip_until", tuple(vs), on, loc,
                                         lambda eid: k(("bool", True), adv(eid, s)),
                                         lambda eid: k(("bool", False), adv(eid, s)))
                    return self.fork(name, tuple(vs), on, loc,
                                     lambda eid: k(("bool", True), adv(eid, s)),
                                     lambda eid: k(("bool", False), s))
                return self.ev_list(all_args[1:], s0, env, with_args)
            return self.ev(recv, st, env, after_recv)

        def pure_call(vs, s):
            if name in ("at_start", "at_end"):
                on = self.curs(vs[0])
                return self.fork(name, (), on if on is not None else ("untracked", vs[0]), loc,
                                 lambda eid: k(("bool", True), s), lambda eid: k(("bool", False), s))
            return k(pure("Input::" + name, vs), s)
        return self.ev_list(all_args, st, env, pure_call)

    def call_values(self, e, callee, base, arg_nodes, vs, st, env, k):
        loc = self.loc(env, e)
        gargs = self.callee_args(env, callee)
        targs = [a for a in gargs if a is not None]

        # ---- constructors / core models
        if base.endswith("option::Option::Some"):
            return k(some(vs[0]), st)
        if base.endswith("result::Result::Ok"):
            return k(("ok", vs[0]), st)
        if base.endswith("result::Result::Err"):
            return k(("err", vs[0]), st)
        if base.startswith("core::result::Result::") and vs and isinstance(vs[0], tuple) and vs[0] and vs[0][0] in ("ok", "err"):
            nm = base[len("core::result::Result::"):]
            isok = vs[0][0] == "ok"
            if nm == "ok":
                return k(some(vs[0][1]) if isok else NONE, st)
            if nm == "err":
                return k(NONE if isok else some(vs[0][1]), st)
            if nm in ("is_ok", "is_err"):
                return k(("bool", isok == (nm == "is_ok")), st)
            if nm == "map" and len(vs) == 2:
                if not isok:
                    return k(vs[0], st)
                return self.apply(vs[1], [vs[0][1]], st, env, lambda v, s: k(("ok", v), s), loc)
            if nm == "map_err" and len(vs) == 2:
                if isok:
                    return k(vs[0], st)
                return self.apply(vs[1], [vs[0][1]], st, env, lambda v, s: k(("err", v), s), loc)
        if base.startswith("core::option::Option::") and vs:
            r = self.option_method(base[len("core::option::Option::"):], vs, st, env, k, loc)
            if r is not None:
                return r
        if base in ("core::bool::<impl bool>::then", "core::bool::<impl bool>::then_some") and len(vs) == 2:
            # `c.then(|| x)` / `c.then_some(x)`  ==  `if c { Some(x) } else { None }`
            if base.endswith("then_some"):
                return self.branch(vs[0], st, lambda s: k(some(vs[1]), s), lambda s: k(NONE, s))
            return self.branch(vs[0], st, lambda s: self.apply(vs[1], [], s, env, lambda v, s2: k(some(v), s2), loc), lambda s: k(NONE, s))
        if base == "core::array::from_fn":
            f = vs[0]
            nconst = None
            for a in callee.get("args", []):
                if "c" in a:
                    nconst = env.subst.get(a["c"], a["c"])
            if isinstance(f, Clo):
                rng = ("range", "Range", (("start", ("lit", "0")), ("end", ("constg", nconst))))

                def body_fn(st_body, lid, kcont, kbreak):
                    return self.apply(f, [("idx", lid)], st_body, env, lambda v, s: kcont(s), loc)
                return self.do_loop(rng, f.node["body"], st, env, lambda v, s: k(pure("array_from_fn"), s), body_fn, loc)
        if base in ("core::convert::Into::into", "core::convert::From::from") and not any(is_tracked(v) for v in vs):
            return k(pure(base.rsplit("::", 1)[-1], vs), st)
        if base in ("core::default::Default::default",):
            return k(pure("default", (), targs[0] if targs else None), st)

        if base == "pest_typed::input::AsInput::as_input":
            return k(cur("IN"), st)

        # ---- stack
        if base.startswith(STACK):
            name = base[len(STACK):]
            if name == "new":
                sid = self.fresh()
                return self.lin("stack_new", (), None, loc, lambda eid: k(("stack", sid), st))
            if name in ("snapshot", "restore", "clear_snapshot"):
                return self.lin(name, (), None, loc, lambda eid: k(UNIT, st))
            if name == "push":
                return self.lin("push", (vs[1],), None, loc, lambda eid: k(UNIT, st))
            if name in ("pop", "peek"):
                return self.fork(name, (), None, loc,
                                 lambda eid: k(some(pure("stack_" + name, (("ev", eid),))), st),
                                 lambda eid: k(NONE, st))
            if name in ("len", "is_empty"):
                return k(pure("stack_" + name), st)
            return self.unm("unmodelled pest::Stack method " + name, loc, lambda: k(("opaque", name), st))
        if base.startswith("<pest::stack::Stack<") and "Index" in base:
            return self.lin("stack_index", (vs[1],), None, loc,
                            lambda eid: k(pure("stack_slice", (("ev", eid), vs[1])), st))

        # ---- tracker
        if base.startswith(TRACKER):
            name = base[len(TRACKER):]
            return self.tracker_call(name, callee, gargs, vs, st, env, k, loc)

        # ---- child matches
        for prefix, kind in ((TN, "MATCH"), (NF, "NFMATCH"), (PTN, "FULL"), (NFPTN, "NFFULL")):
            if base.startswith(prefix):
                return self.child_call(kind, base[len(prefix):], callee, gargs, vs, st, env, k, loc)

        # ---- crate-local helper: inline when it is handed tracked state
        target = callee.get("inst") or callee["path"]
        tracked = any(is_tracked(v) for v in vs)
        if tracked:
            tid = self.resolve_body(target)
            if tid is not None and env.depth < self.max_depth:
                ga = gargs
                if callee.get("inst"):
                    ga = [self._garg(env.crate, a, env.subst) for a in callee.get("inst_args", [])]
                return self.inline(tid, ga, vs, st, env, k, loc)
            clos = [v for v in vs if isinstance(v, Clo)]
            if all(not is_tracked(v) or isinstance(v, Clo) for v in vs) and all(not self.has_events(c.node) for c in clos):
                return k(pure("call:" + base, [v for v in vs if not isinstance(v, Clo)]), st)
            return self.unm("tracked state passed to unmodelled callee " + base, loc, lambda: k(("opaque", base), st))
        # a crate-local helper that is handed no tracked state but creates some (Stack::new / Tracker::new / as_input in a
        # private `initial_state(..)`): its events happen here
        tid = self.resolve_body(target)
        if tid is not None and env.depth < self.max_depth and self.creates_state(self.bodies[tid][1]["value"]):
            ga = gargs
            if callee.get("inst"):
                ga = [self._garg(env.crate, a, env.subst) for a in callee.get("inst_args", [])]
            return self.inline(tid, ga, vs, st, env, k, loc)
        return k(pure("call:" + base, vs, None), st)

    def resolve_body(self, path):
        if path in self.bodies:
            return path
        return None

    def option_method(self, name, vs, st, env, k, loc):
        r = vs[0]
        rt = r[0] if isinstance(r, tuple) and r else None
        if rt not in ("some", "none"):
            # an Option we know nothing about, handed to a combinator with a closure: both cases, as an opaque branch
            # (`x.ok().map(|v| ..)` is `match x.ok() { Some(v) => Some(..), None => None }`)
            if rt in ("pure", "opaque") and name in ("map", "and_then", "map_or", "map_or_else", "or_else", "unwrap_or_else", "is_some_and") \
                    and any(isinstance(v, Clo) for v in vs[1:]):
                inner = pure("part_of", (r,))
                t_some = self.option_method(name, [some(inner)] + list(vs[1:]), dict(st), env, k, loc)
                t_none = self.option_method(name, [NONE] + list(vs[1:]), dict(st), env, k, loc)
                if t_some is not None and t_none is not None:
                    return {"n": "opq", "cond": ("match", r), "arms": [("some", t_some), ("none", t_none)]}
            return None
        if name in ("as_ref", "as_mut", "copied", "cloned", "as_deref"):
            return k(r, st)
        if name == "is_some":
            return k(("bool", rt == "some"), st)
        if name == "is_none":
            return k(("bool", rt == "none"), st)
        if name == "map":
            if rt == "none":
                return k(NONE, st)
            return self.apply(vs[1], [r[1]], st, env, lambda v, s: k(some(v), s), loc)
        if name == "and_then":
            if rt == "none":
                return k(NONE, st)
            return self.apply(vs[1], [r[1]], st, env, k, loc)
        if name == "ok_or":
            return k(("ok", r[1]) if rt == "some" else ("err", vs[1]), st)
        if name == "ok_or_else":
            if rt == "some":
                return k(("ok", r[1]), st)
            return self.apply(vs[1], [], st, env, lambda v, s: k(("err", v), s), loc)
        if name in ("unwrap", "expect", "unwrap_unchecked"):
            if rt == "some":
                return k(r[1], st)
            return {"n": "leaf", "kind": "panic", "val": ("lit", name)}
        if name == "unwrap_or":
            return k(r[1] if rt == "some" else vs[1], st)
        if name == "unwrap_or_else":
            if rt == "some":
                return k(r[1], st)
            return self.apply(vs[1], [], st, env, k, loc)
        if name == "map_or":          # map_or(default, f): the default has been evaluated already (eagerly, as in Rust)
            if rt == "none":
                return k(vs[1], st)
            return self.apply(vs[2], [r[1]], st, env, k, loc)
        if name == "map_or_else":
            if rt == "none":
                return self.apply(vs[1], [], st, env, k, loc)
            return self.apply(vs[2], [r[1]], st, env, k, loc)
        if name == "is_some_and":
            if rt == "none":
                return k(("bool", False), st)
            return self.apply(vs[1], [r[1]], st, env, k, loc)
        if name == "or":          # the argument has been evaluated already (eagerly, as in Rust)
            return k(r if rt == "some" else vs[1], st)
        if name == "or_else":
            if rt == "some":
                return k(r, st)
            return self.apply(vs[1], [], st, env, k, loc)
        return None

    def rule_label(self, v):
        if isinstance(v, tuple) and v and v[0] == "const" and v[1].endswith("RuleWrapper::RULE"):
            return ("RULE_OF", v[2][0] if v[2] else "?")
        return v

    def tracker_call(self, name, callee, gargs, vs, st, env, k, loc):
        trk = vs[0]
        if name == "new":
            tid = self.fresh()
            return self.lin("tracker_new", (), self.curs(vs[0]), loc, lambda eid: k(("tracker", tid), st))
        if name in ("positive_during", "negative_during"):
            pol = name.startswith("positive")
            f = vs[1]

            def body(eid):
                return self.apply(f, [trk], st, env,
                                  lambda v, s: self.lin("exit_polarity", (pol,), None, loc, lambda e2: k(v, s)), loc)
            return self.lin("enter_polarity", (pol, trk), None, loc, body)
        if name in ("record_during", "record_during_with"):
            pos = vs[1]
            f = vs[2]
            if name == "record_during":
                targs = [a for a in gargs if a is not None]
                # generics of record_during: [R (impl), T, I, closure]; T is the rule wrapper type
                item = self.items.get("pest_typed::tracker::Tracker::<'i, R>::record_during")
                tname = None
                if item:
                    gens = [g["name"] for g in item[1]["generics"] if g["kind"] != "lifetime"]
                    if "T" in gens and len(gens) == len(targs):
                        tname = targs[gens.index("T")]
                rule = ("RULE_OF", tname if tname is not None else "?")
            else:
                rule = self.rule_label(vs[3])

            def body(eid):
                return self.apply(f, [trk], st, env,
                                  lambda v, s: self.lin("exit_record", (rule,), None, loc, lambda e2: k(v, s)), loc)
            return self.lin("enter_record", (rule, trk), self.curs(pos) if self.curs(pos) is not None else ("untracked", pos), loc, body)
        if name in ("empty_stack", "out_of_bound", "repeat_too_many_times"):
            pos = vs[1]
            return self.lin(name, tuple(vs[2:]) + (trk,), self.curs(pos), loc, lambda eid: k(UNIT, st))
        if name in ("collect", "finish"):
            return self.lin("tracker_" + name, (trk,), None, loc, lambda eid: k(pure("tracker_" + name, (trk,)), st))
        return self.unm("unmodelled Tracker method " + name, loc, lambda: k(("opaque", name), st))

    def child_call(self, kind, name, callee, gargs, vs, st, env, k, loc):
        x = gargs[0] if gargs else "?"
        # a call on the impl's own type (Self::parse_with from try_parse_partial_with): inline
        inst = callee.get("inst")
        if inst and x == env.self_ty and inst in self.bodies and inst != env.fn_id and env.depth < self.max_depth:
            ga = [self._garg(env.crate, a, env.subst) for a in callee.get("inst_args", [])]
            return self.inline(inst, ga, vs, st, env, k, loc)
        mode = "parse" if "parse" in name else "check"
        partial = "partial" in name
        inp = vs[0]
        on = self.curs(inp)
        if on is None:
            on = ("untracked", inp)
        extra = tuple(v for v in vs[1:] if isinstance(v, tuple) and v and v[0] in ("stack", "tracker"))
        if kind == "MATCH":
            if mode == "parse":
                return self.fork("MATCH", (x, mode) + extra, on, loc,
                                 lambda eid: k(some(("tup", (cur(("out", eid)), pure("tree", (("ev", eid),))))), st),
                                 lambda eid: k(NONE, st))
            return self.fork("MATCH", (x, mode) + extra, on, loc,
                             lambda eid: k(some(cur(("out", eid))), st), lambda eid: k(NONE, st))
        if kind == "NFMATCH":
            if name not in ("parse_with", "check_with"):
                return self.unm("unmodelled NeverFailedTypedNode method " + name, loc, lambda: k(("opaque", name), st))
            if mode == "parse":
                return self.lin("NFMATCH", (x, mode) + extra, on, loc,
                                lambda eid: k(("tup", (cur(("out", eid)), pure("tree", (("ev", eid),)))), st))
            return self.lin("NFMATCH", (x, mode) + extra, on, loc, lambda eid: k(cur(("out", eid)), st))
        if kind == "FULL":
            if name == "try_parse_with":
                return self.fork("FULL", (x, mode) + extra, on, loc,
                                 lambda eid: k(some(pure("tree", (("ev", eid),))), st), lambda eid: k(NONE, st))
            if name == "try_check_with":
                return self.fork("FULL", (x, mode) + extra, on, loc,
                                 lambda eid: k(("bool", True), st), lambda eid: k(("bool", False), st))
            if name in ("try_parse_partial_with", "try_check_partial_with"):
                pass
            return self.fork("ENTRY", (x, name), on, loc,
                             lambda eid: k(("ok", pure("tree", (("ev", eid),))), st),
                             lambda eid: k(("err", pure("error", (("ev", eid),))), st))
        return self.lin("NFFULL", (x, name) + extra, on, loc, lambda eid: k(pure("tree", (("ev", eid),)), st))


# ---------------------------------------------------------------------- canonical forms

class Canon:
    """Renumber events/loops in DFS order and render trees as nested tuples."""

    def __init__(self, erase=True, assume=None):
        self.erase = erase
        self.ev = {}
        self.loops = {}
        self.assume = assume or {}

    def sym(self, s):
        if isinstance(s, tuple):
            if s and s[0] in ("out",):
                return ("out", self.ev.get(s[1], "?%s" % s[1]))
            if s and s[0] in ("loop", "exit"):
                return (s[0], self.loops.get(s[1], "?%s" % s[1]), s[2])
            if s and s[0] == "untracked":
                return ("untracked", self.val(s[1]))
        return s

    def val(self, v):
        if isinstance(v, Clo):
            return "{closure}"
        if not isinstance(v, tuple) or not v:
            return v
        t = v[0]
        if t == "cur":
            return ("cur", self.sym(v[1]))
        if t == "ev":
            return ("ev", self.ev.get(v[1], "?"))
        if t == "idx":
            return ("idx", self.loops.get(v[1], "?"))
        if t == "loopid":
            return ("loopid", self.loops.get(v[1], "?"))
        if t == "pure":
            return ("pure", v[1], tuple(self.val(x) for x in v[2]))
        if t in ("stack", "tracker"):
            return (t, "main" if v[1] == 0 else "local")
        if t == "refvar":
            return ("refvar",)
        return tuple(self.val(x) if isinstance(x, tuple) else x for x in v)

    def ret(self, v):
        """Erased result: RET_OK(cursor) / RET_FAIL / RET(cursor)."""
        if not isinstance(v, tuple) or not v:
            return ("RET", repr(v))
        t = v[0]
        if t == "none":
            return ("RET_FAIL",)
        if t == "bool":
            return ("RET_OK",) if v[1] else ("RET_FAIL",)
        if t == "err":
            return ("RET_ERR",)
        if t in ("some", "ok"):
            p = v[1]
            c = self.first_cursor(p)
            return ("RET_OK", c) if c is not None else ("RET_OK",)
        c = self.first_cursor(v)
        if c is not None:
            return ("RET", c)
        return ("RET",)

    def first_cursor(self, p):
        if isinstance(p, tuple) and p:
            if p[0] == "cur":
                return self.sym(p[1])
            if p[0] == "tup" and p[1]:
                return self.first_cursor(p[1][0])
        return None

    def label(self, n):
        op = n["op"]
        args = n["args"]
        if self.erase and op in ("MATCH", "NFMATCH", "FULL"):
            args = tuple(a for i, a in enumerate(args) if i != 1)
        return (op, tuple(self.val(a) for a in args), self.sym(n["on"]) if n["on"] is not None else None)

    def tree(self, t):
        n = t["n"]
        if n == "ev":
            self.ev[t["id"]] = len(self.ev) + 1
            lab = self.label(t)
            if "next" in t:
                return ("ev", self.ev[t["id"]], lab, self.tree(t["next"]))
            ok = self.tree(t["ok"])
            fail = self.tree(t["fail"])
            return ("fork", self.ev[t["id"]], lab, ok, fail)
        if n == "loop":
            self.loops[t["id"]] = len(self.loops) + 1
            lid = self.loops[t["id"]]
            rng = self.val(t["range"])
            entry = tuple(self.val(x) for x in t["entry"])
            body = self.tree(t["body"])
            after = self.tree(t["after"])
            return ("loop", lid, rng, entry, body, after)
        if n == "opq":
            cond = self.val(t["cond"])
            arms = t["arms"]
            # one spelling for a two-way test of an Option / Result: `if let Some(x) = v`, `let Some(x) = v else`, and
            # `match v { Some(x) => .., None | _ => .. }` are all ("match", v) with arms named after the variants
            TWO = {"Some": "None", "None": "Some", "Ok": "Err", "Err": "Ok"}
            raw = t["cond"]
            if isinstance(raw, tuple) and raw and raw[0] in ("iflet", "letelse") and raw[1] in TWO and [l for l, _ in arms] == ["match", "else"]:
                cond = ("match", self.val(raw[2]))
                arms = [(raw[1], arms[0][1]), (TWO[raw[1]], arms[1][1])]
            elif isinstance(raw, tuple) and raw and raw[0] == "match" and len(arms) == 2:
                labs = [l for l, _ in arms]
                for i in (0, 1):
                    if labs[i] in TWO and labs[1 - i] == "_":
                        arms = list(arms)
                        arms[1 - i] = (TWO[labs[i]], arms[1 - i][1])
            if [l for l, _ in arms] in (["None", "Some"], ["Err", "Ok"]):
                arms = [arms[1], arms[0]]
            t = dict(t)
            t["arms"] = arms
            for key, arm in self.assume.items():
                if key in repr(cond):
                    for lab, sub in t["arms"]:
                        if lab == arm or (isinstance(arm, tuple) and lab in arm):
                            return self.tree(sub)
            return ("opq", cond, tuple((lab, self.tree(sub)) for lab, sub in t["arms"]))
        if n == "unm":
            return ("unm", t["what"], self.tree(t["next"]))
        if n == "leaf":
            if t["kind"] == "ret":
                return ("leaf",) + (self.ret(t["val"]) if self.erase else ("ret", self.val(t["val"])))
            if t["kind"] == "panic":
                return ("leaf", "PANIC")
            return ("leaf", t["kind"].upper(), self.loops.get(t["loop"], "?"), tuple(self.val(x) for x in t["upd"]))
        return ("?", n)


def simplify(t):
    """Normal form: a fork/opq whose children are equal becomes linear / disappears; drop no-op loops."""
    tag = t[0]
    if tag == "fork":
        ok = simplify(t[3])
        fail = simplify(t[4])
        if ok == fail:
            return ("ev", t[1], t[2], ok)
        return ("fork", t[1], t[2], ok, fail)
    if tag == "ev":
        return ("ev", t[1], t[2], simplify(t[3]))
    if tag == "loop":
        body = simplify(t[4])
        after = simplify(t[5])
        lid = t[1]
        if body[0] == "opq" and not mentions_loop(body[1], lid) and len(body[2]) >= 2:
            # loop unswitching: `for .. { if c { A } else { B } }` with c independent of the loop is
            # `if c { for .. { A } } else { for .. { B } }` (each copy is then simplified on its own: a copy whose
            # body does nothing disappears).  Canonical form = the unswitched one.
            arms = tuple((lab, simplify(("loop", lid, t[2], t[3], sub, after))) for lab, sub in body[2])
            if all(a[1] == arms[0][1] for a in arms):
                return arms[0][1]
            return ("opq", body[1], arms)
        if body[0] == "leaf" and body[1] == "CONTINUE" and body[2] == lid and all(
                u == ("cur", ("loop", lid, j)) for j, u in enumerate(body[3])):
            # a loop without events that leaves its carried cursors alone: not there
            return subst_exit(after, lid, t[3])
        return ("loop", lid, t[2], t[3], body, after)
    if tag == "opq":
        arms = tuple((lab, simplify(sub)) for lab, sub in t[2])
        if arms and all(a[1] == arms[0][1] for a in arms):
            return arms[0][1]
        return ("opq", t[1], arms)
    if tag == "unm":
        return ("unm", t[1], simplify(t[2]))
    return t


def mentions_loop(v, lid):
    if isinstance(v, tuple):
        if len(v) >= 2 and v[0] in ("loop", "exit", "idx", "loopid") and v[1] == lid:
            return True
        return any(mentions_loop(x, lid) for x in v)
    return False


def subst_exit(t, lid, entry):
    if isinstance(t, tuple):
        if len(t) == 2 and t[0] == "cur" and isinstance(t[1], tuple) and len(t[1]) == 3 and t[1][0] == "exit" and t[1][1] == lid:
            return entry[t[1][2]]
        if len(t) == 3 and t[0] == "exit" and t[1] == lid and isinstance(t[2], int):
            e = entry[t[2]]
            return e[1] if isinstance(e, tuple) and e and e[0] == "cur" else e
        return tuple(subst_exit(x, lid, entry) for x in t)
    return t


def canon(tree, erase=True, assume=None):
    c = Canon(erase, assume)
    t = c.tree(tree)
    t = simplify(t)
    # renumbering after simplification keeps ids stable relative to structure: re-walk to compact ids
    return compact(t)


def compact(t):
    evmap = {}
    loopmap = {}
    counter = {"ev": 0, "loop": 0}     # running counters: unswitching duplicates subtrees, so original ids can occur twice

    def sub(x):
        if isinstance(x, tuple):
            if len(x) == 2 and x[0] in ("out", "ev") and isinstance(x[1], int):
                return (x[0], evmap.get(x[1], x[1]))
            if len(x) == 3 and x[0] in ("loop", "exit") and isinstance(x[1], int) and isinstance(x[2], int):
                return (x[0], loopmap.get(x[1], x[1]), x[2])
            if len(x) == 2 and x[0] in ("idx", "loopid") and isinstance(x[1], int):
                return (x[0], loopmap.get(x[1], x[1]))
            return tuple(sub(y) for y in x)
        return x

    def go(t):
        tag = t[0]
        if tag in ("fork", "ev"):
            counter["ev"] += 1
            evmap[t[1]] = counter["ev"]
            i = evmap[t[1]]
            lab = sub(t[2])
            if tag == "ev":
                return ("ev", i, lab, go(t[3]))
            return ("fork", i, lab, go(t[3]), go(t[4]))
        if tag == "loop":
            counter["loop"] += 1
            loopmap[t[1]] = counter["loop"]
            i = loopmap[t[1]]
            return ("loop", i, sub(t[2]), sub(t[3]), go(t[4]), go(t[5]))
        if tag == "opq":
            return ("opq", sub(t[1]), tuple((lab, go(s)) for lab, s in t[2]))
        if tag == "unm":
            return ("unm", t[1], go(t[2]))
        if tag == "leaf":
            if len(t) >= 3 and t[1] in ("CONTINUE", "BREAK"):
                return ("leaf", t[1], loopmap.get(t[2], t[2]), sub(t[3]))
            return tuple(sub(x) if isinstance(x, tuple) else x for x in t)
        return t
    return go(t)


# ---------------------------------------------------------------------- printing

def fmt_val(v):
    if isinstance(v, tuple):
        if not v:
            return "()"
        t = v[0]
        if t == "cur":
            return fmt_sym(v[1])
        if t == "pure":
            a = ", ".join(fmt_val(x) for x in v[2])
            return "%s(%s)" % (v[1], a) if a else str(v[1])
        if t == "lit":
            return str(v[1])
        if t == "constg":
            return str(v[1])
        if t == "idx":
            return "i%s" % v[1]
        if t == "ev":
            return "e%s" % v[1]
        if t == "const":
            return "%s<%s>" % (v[1].rsplit("::", 2)[-2] + "::" + v[1].rsplit("::", 1)[-1], ",".join(str(x) for x in v[2]))
        if t == "range":
            return "%s{%s}" % (v[1], ", ".join("%s: %s" % (a, fmt_val(b)) for a, b in v[2]))
        return "(" + " ".join(fmt_val(x) for x in v) + ")"
    return str(v)


def fmt_sym(s):
    if isinstance(s, tuple) and s:
        if s[0] == "out":
            return "out(e%s)" % s[1]
        if s[0] == "loop":
            return "L%s.c%s" % (s[1], s[2])
        if s[0] == "exit":
            return "L%s.exit.c%s" % (s[1], s[2])
        return fmt_val(s)
    return str(s)


def fmt(t, ind=0):
    pad = "  " * ind
    tag = t[0]
    out = []
    if tag in ("ev", "fork"):
        op, args, on = t[2]
        lab = "e%d %s(%s)%s" % (t[1], op, ", ".join(fmt_val(a) for a in args), (" on " + fmt_sym(on)) if on is not None else "")
        if tag == "ev":
            out.append(pad + lab)
            out.append(fmt(t[3], ind))
        else:
            out.append(pad + lab)
            out.append(pad + " ├ ok")
            out.append(fmt(t[3], ind + 2))
            out.append(pad + " └ fail")
            out.append(fmt(t[4], ind + 2))
    elif tag == "loop":
        out.append(pad + "Loop L%d over %s carrying %s" % (t[1], fmt_val(t[2]), ", ".join(fmt_val(x) for x in t[3])))
        out.append(fmt(t[4], ind + 2))
        out.append(pad + "after L%d:" % t[1])
        out.append(fmt(t[5], ind))
    elif tag == "opq":
        out.append(pad + "? " + fmt_val(t[1]))
        for lab, s in t[2]:
            out.append(pad + " ├ " + lab)
            out.append(fmt(s, ind + 2))
    elif tag == "unm":
        out.append(pad + "UNMODELLED " + t[1])
        out.append(fmt(t[2], ind))
    elif tag == "leaf":
        if t[1] in ("CONTINUE", "BREAK"):
            out.append(pad + "%s L%s (%s)" % (t[1], t[2], ", ".join(fmt_val(x) for x in t[3])))
        else:
            out.append(pad + " ".join((fmt_sym(x) if isinstance(x, tuple) else str(x)) for x in t[1:]))
    else:
        out.append(pad + repr(t))
    return "\n".join(out)


# ---------------------------------------------------------------------- queries

def iter_nodes(t, path=()):
    """Yield (node, path) where path is a tuple of (event-id, outcome) / markers leading to node."""
    yield t, path
    tag = t[0]
    if tag == "ev":
        for x in iter_nodes(t[3], path + ((t[1], "-", t[2]),)):
            yield x
    elif tag == "fork":
        for x in iter_nodes(t[3], path + ((t[1], "ok", t[2]),)):
            yield x
        for x in iter_nodes(t[4], path + ((t[1], "fail", t[2]),)):
            yield x
    elif tag == "loop":
        for x in iter_nodes(t[4], path + (("L%d" % t[1], "body", t[2]),)):
            yield x
        for x in iter_nodes(t[5], path + (("L%d" % t[1], "after", t[2]),)):
            yield x
    elif tag == "opq":
        for lab, s in t[2]:
            for x in iter_nodes(s, path + (("?", lab, t[1]),)):
                yield x
    elif tag == "unm":
        for x in iter_nodes(t[2], path + (("unm", "-", t[1]),)):
            yield x


def leaves(t):
    for n, p in iter_nodes(t):
        if n[0] == "leaf":
            yield n, p
