"""PRIM — the consuming primitives of the `Input` trait move the *real* cursor exactly when they report success.

Path enumeration over the typed HIR of each primitive (trait default, every override in an `impl Input for ..`, and the
`&mut self` helpers they call).  On every path we record
  * the abstract result: True / False (bool), Some / None (Option), or unknown;
  * the cursor writes rooted in `self`: `*self.cursor() (op)= e`, `self.<field> (op)= e`, or a call of another verified
    primitive with `self` (not a temporary) as `&mut` receiver.
Rules (the amounts written are pinned separately by the reviewed unsafe-site keys of R09-UNSAFE):
  SUCCESS  a path that definitely reports success passes through a rooted cursor write;
  FAILURE  a path that definitely reports failure performs no rooted cursor write (skip_until is the reviewed exception:
           pest's `skip_until` leaves the cursor at the end of input when nothing is found);
  ROOT     a `&mut self` primitive called on a temporary (`self.as_position().skip(1)`) moves nothing: never counted.
Loops are walked once (writes inside are seen, iteration counts are not).  Closures are not entered; when no path has a
definite result the rule falls back to 'some rooted write exists' and says so in the evidence.
"""
from .hir import walk, strip_generics

INPUT = "pest_typed::input::Input"
CONSUMERS = ["match_string", "match_insensitive", "skip_until", "skip", "match_range", "match_char_by", "next"]
# failure paths that may write: reviewed
FAIL_WRITES_OK = {"skip_until": "pest semantics: when no terminator is found the cursor is left at the end of input and false is returned"}
SOME = "core::option::Option::Some"
NONE = "core::option::Option::None"


def _peel(e):
    while e["k"] in ("addr_of", "use", "cast") or (e["k"] == "unary" and e.get("op") == "*" and e["e"]["k"] in ("addr_of",)) \
            or (e["k"] == "block" and not e.get("stmts") and "tail" in e):
        e = e["tail"] if e["k"] == "block" else e["e"]
    return e


def rooted_in_self(e, selfvar):
    """Is this place expression (a field path / reborrow) rooted at the `self` parameter?"""
    e = _peel(e)
    while e["k"] in ("field", "unary", "addr_of", "index"):
        e = _peel(e["base"] if e["k"] in ("field", "index") else e["e"])
    return e["k"] == "local" and e.get("var") == selfvar


class Paths:
    def __init__(self, crate, body, advancers):
        self.c = crate
        self.body = body
        self.selfvar = body["params"][0]["var"] if body.get("params") and body["params"][0].get("name") == "self" else None
        self.adv = advancers
        self.lets = {}
        self.assigned = set()
        for n in walk(body["value"]):
            if n["k"] == "block":
                for s in n.get("stmts", []):
                    if s["k"] == "let" and "init" in s and s["pat"].get("k") == "bind":
                        self.lets[s["pat"]["var"]] = s["init"]
            if n["k"] in ("assign", "assign_op") and n["l"]["k"] == "local":
                self.assigned.add(n["l"]["var"])
        self.budget = 4000

    # ---- writes
    def write_of(self, n):
        k = n["k"]
        if k in ("assign", "assign_op"):
            l = _peel(n["l"])
            if l["k"] == "unary" and l.get("op") == "*":
                t = _peel(l["e"])
                if t["k"] in ("mcall", "call") and t.get("callee") and strip_generics(t["callee"]["path"]) == INPUT + "::cursor":
                    recv = t["recv"] if t["k"] == "mcall" else (t["args"][0] if t["args"] else None)
                    if recv is not None and rooted_in_self(recv, self.selfvar):
                        return ("cursor", n)
                    return ("temp-cursor", n)
            if l["k"] == "field" and rooted_in_self(l, self.selfvar):
                ty = self.c.tys(l.get("ty")) if l.get("ty") is not None else ""
                if ty == "usize":
                    return ("field:" + l["name"], n)
        if k in ("mcall", "call") and n.get("callee"):
            base = strip_generics(n["callee"]["path"])
            if base in self.adv:
                recv = n["recv"] if k == "mcall" else (n["args"][0] if n["args"] else None)
                if recv is not None and rooted_in_self(recv, self.selfvar):
                    return ("via:" + base.rsplit("::", 1)[-1], n)
                return ("temp:" + base.rsplit("::", 1)[-1], n)
        return None

    # ---- abstract values
    def absval(self, e, facts):
        e = _peel(e)
        k = e["k"]
        if k == "lit" and e.get("v") and "bool" in e["v"]:
            return bool(e["v"]["bool"]) if not isinstance(e["v"]["bool"], str) else e["v"]["bool"] == "true"
        if k == "def" and (e.get("path") or "").endswith("Option::None"):
            return "None"
        if k in ("call",) and e.get("callee") and strip_generics(e["callee"]["path"]) == SOME:
            return "Some"
        if k == "call" and e.get("f", {}).get("k") == "def" and (e["f"].get("path") or "").endswith("Option::Some"):
            return "Some"
        if k == "local":
            v = e["var"]
            if v in facts:
                return facts[v]
            if v in self.lets and v not in self.assigned:
                return self.absval(self.lets[v], facts)
        return None

    def cond_facts(self, cond, facts, positive):
        """Facts learnt when cond evaluates to `positive`."""
        f = dict(facts)
        c = _peel(cond)
        if c["k"] == "local":
            f[c["var"]] = positive
        elif c["k"] == "unary" and c.get("op") == "!" and _peel(c["e"])["k"] == "local":
            f[_peel(c["e"])["var"]] = not positive
        elif c["k"] == "let_cond":
            init = _peel(c["init"])
            tag = self.pat_tag(c["pat"])
            if init["k"] == "local" and tag:
                which, total = tag
                if positive:
                    f[init["var"]] = which
                elif total:
                    f[init["var"]] = "None" if which == "Some" else "Some"
        return f

    def pat_tag(self, p):
        while p["k"] in ("ref", "deref"):
            p = p["p"]
        if p["k"] == "tstruct" and p["res"].get("path") == SOME:
            return "Some", all(q["k"] in ("bind", "wild") for q in p.get("ps", []))
        if p["k"] in ("expr", "path") and (p.get("res") or {}).get("path") == NONE:
            return "None", True
        if p["k"] == "struct" and p["res"].get("path") == SOME:     # `for` desugaring
            return "Some", True
        if p["k"] == "struct" and p["res"].get("path") == NONE:
            return "None", True
        return None

    # ---- path enumeration: yields (outcome, value, writes, facts); outcome in norm/ret/break/continue
    def run(self, e, writes, facts):
        self.budget -= 1
        if self.budget < 0:
            raise RuntimeError("path budget exhausted")
        k = e["k"]
        if k == "block":
            yield from self.block(e, 0, writes, facts)
            return
        if k == "if":
            cond = e["cond"]
            for oc, _, w, f in self.run_cond(cond, writes, facts):
                if oc[0] != "cond":
                    yield oc, None, w, f
                    continue
                if oc[1]:
                    yield from self.run(e["then"], w, f)
                elif "else" in e:
                    yield from self.run(e["else"], w, f)
                else:
                    yield "norm", None, w, f
            return
        if k == "match":
            for oc, v, w, f in self.run(e["scrut"], writes, facts):
                if oc != "norm":
                    yield oc, v, w, f
                    continue
                scr = _peel(e["scrut"])
                for arm in e["arms"]:
                    f2 = dict(f)
                    tag = self.pat_tag(arm["pat"])
                    if tag and scr["k"] == "local":
                        f2[scr["var"]] = tag[0]
                    if e.get("src") == "try" and (arm["pat"].get("res") or {}).get("path", "").endswith("ControlFlow::Break"):
                        # `?`: the residual is returned — a failure (None / Err)
                        yield "ret", "None", w, f2
                        continue
                    yield from self.run(arm["body"], w, f2)
            return
        if k == "loop":
            # zero or more iterations: walk the body once; leaving it by break / continue / falling off its end goes on after the loop
            seen = False
            for oc, v, w, f in self.run(e["body"], writes, facts):
                if oc == "ret":
                    yield oc, v, w, f
                else:
                    seen = True
                    yield "norm", None, w, f
            if not seen:
                return
            return
        if k == "ret":
            if "e" in e and e["e"]:
                for oc, v, w, f in self.run(e["e"], writes, facts):
                    yield ("ret", v, w, f) if oc == "norm" else (oc, v, w, f)
            else:
                yield "ret", None, writes, facts
            return
        if k in ("break", "continue"):
            yield k, None, writes, facts
            return
        if k == "binary" and e.get("op") in ("&&", "||"):
            for oc, _, w, f in self.run_cond(e, writes, facts):
                if oc[0] == "cond":
                    yield "norm", oc[1], w, f
                else:
                    yield oc, None, w, f
            return
        if k == "closure":
            yield "norm", None, writes, facts
            return
        # generic expression: evaluate sub-expressions in order, then this node's own effect
        subs = []
        for key in ("f", "recv", "e", "l", "r", "base", "idx", "init"):
            v = e.get(key)
            if isinstance(v, dict) and "k" in v:
                subs.append(v)
        for key in ("args", "es"):
            for v in e.get(key) or []:
                if isinstance(v, dict) and "k" in v:
                    subs.append(v)
        if k == "struct":
            subs += [fl["e"] for fl in e.get("fields", [])]
        yield from self.seq(subs, 0, e, writes, facts)

    def seq(self, subs, i, node, writes, facts):
        if i == len(subs):
            w = self.write_of(node)
            if w:
                writes = writes + (w,)
            yield "norm", self.absval(node, facts), writes, facts
            return
        for oc, v, w, f in self.run(subs[i], writes, facts):
            if oc != "norm":
                yield oc, v, w, f
            else:
                yield from self.seq(subs, i + 1, node, w, f)

    def run_cond(self, cond, writes, facts):
        """Yield (('cond', bool) | outcome, None, writes, facts) for both truth values of a condition."""
        c = cond
        if c["k"] == "binary" and c.get("op") == "&&":
            for oc, _, w, f in self.run_cond(c["l"], writes, facts):
                if oc[0] != "cond" or not oc[1]:
                    yield oc, None, w, f
                else:
                    yield from self.run_cond(c["r"], w, f)
            return
        if c["k"] == "binary" and c.get("op") == "||":
            for oc, _, w, f in self.run_cond(c["l"], writes, facts):
                if oc[0] != "cond" or oc[1]:
                    yield oc, None, w, f
                else:
                    yield from self.run_cond(c["r"], w, f)
            return
        inner = c["init"] if c["k"] == "let_cond" else c
        for oc, v, w, f in self.run(inner, writes, facts):
            if oc != "norm":
                yield oc, v, w, f
                continue
            if c["k"] != "let_cond" and v in (True, False):
                yield ("cond", v), None, w, self.cond_facts(c, f, v)
                continue
            yield ("cond", True), None, w, self.cond_facts(c, f, True)
            yield ("cond", False), None, w, self.cond_facts(c, f, False)

    def block(self, b, i, writes, facts):
        stmts = b.get("stmts", [])
        if i == len(stmts):
            if "tail" in b:
                yield from self.run(b["tail"], writes, facts)
            else:
                yield "norm", None, writes, facts
            return
        st = stmts[i]
        if st["k"] == "let" and "els" in st and "init" in st:
            # `let PAT = e else { diverge };` is `if let PAT = e { rest } else { diverge }`
            for oc, v, w, f in self.run_cond({"k": "let_cond", "pat": st["pat"], "init": st["init"]}, writes, facts):
                if oc[0] != "cond":
                    yield oc, v, w, f
                elif oc[1]:
                    yield from self.block(b, i + 1, w, f)
                else:
                    yield from self.run(st["els"], w, f)
            return
        if st["k"] == "let":
            if "init" not in st:
                yield from self.block(b, i + 1, writes, facts)
                return
            for oc, v, w, f in self.run(st["init"], writes, facts):
                if oc != "norm":
                    yield oc, v, w, f
                    continue
                f2 = f
                if st["pat"].get("k") == "bind" and v is not None:
                    f2 = dict(f)
                    f2[st["pat"]["var"]] = v
                if "els" in st:
                    for oc2, v2, w2, f3 in self.run(st["els"], w, f):
                        yield oc2, v2, w2, f3
                yield from self.block(b, i + 1, w, f2)
            return
        if st["k"] == "expr":
            for oc, v, w, f in self.run(st["e"], writes, facts):
                if oc != "norm":
                    yield oc, v, w, f
                else:
                    yield from self.block(b, i + 1, w, f)
            return
        yield from self.block(b, i + 1, writes, facts)

    def results(self):
        out = []
        for oc, v, w, f in self.run(self.body["value"], (), {}):
            if oc in ("norm", "ret"):
                out.append((v, w))
        return out


def next_amount(crate, body, write_lists):
    """None if every cursor write of the given success paths of a `next` implementation advances by one character."""
    for ws in write_lists:
        for kind, node in ws:
            if kind.startswith("temp"):
                continue
            if kind.startswith("via:"):
                args = node.get("args") or []
                a = _peel(args[-1]) if args else None
                nm = kind[4:]
                if nm == "skip" and a is not None and a["k"] == "lit" and (a.get("v") or {}).get("int") == "1":
                    continue
                if nm == "next" and not args:
                    continue
                return "advances with `%s(%s)`: not by exactly the one character it returns" % (nm, (a.get("v") or {}).get("int", "..") if a is not None and a["k"] == "lit" else "..")
            if kind == "cursor" or kind.startswith("field:"):
                r = _peel(node.get("r", {"k": "none"}))
                ok = node["k"] == "assign_op" and node.get("op") in ("+=", "+") and r["k"] in ("mcall", "call") and r.get("callee") and \
                    strip_generics(r["callee"]["path"]).endswith("char::methods::<impl char>::len_utf8")
                if not ok:
                    return "the cursor is not advanced by `<the character read>.len_utf8()`"
    return None


def consumers(crate):
    """(label, fn id, method name) for every consuming primitive: trait defaults and overrides in impls of Input."""
    out = []
    for m in CONSUMERS:
        out.append(("Input::" + m, INPUT + "::" + m, m))
    for im in crate.impls():
        if (im.get("trait") or "") != INPUT:
            continue
        for it in im.get("items", []):
            if it["kind"] == "AssocFn" and it["name"] in CONSUMERS:
                out.append(("%s::%s" % (im["id"], it["name"]), it["id"], it["name"]))
    return out


def adv_rule(rule, crate, helpers=("pest_typed::position::Position::skip",)):
    """Instances: one per primitive (default / override / helper)."""
    advancers = {INPUT + "::" + m for m in CONSUMERS} | {strip_generics(h) for h in helpers}
    todo = consumers(crate)
    for h in helpers:
        hid = next((fid for fid in crate.bodies if strip_generics(fid) == strip_generics(h)), None)
        todo.append((h.split("::", 1)[1], hid or h, h.rsplit("::", 1)[-1]))
    for label, fid, m in todo:
        b = crate.body(fid)
        if b is None:
            if label.startswith("Input::"):
                rule.violate(label, "primitive missing (anchor lost): %s" % fid)
            else:
                rule.violate(label, "helper %s missing (anchor lost)" % fid)
            continue
        loc = crate.loc(b["value"].get("sp"))
        try:
            res = Paths(crate, b, advancers).results()
        except RuntimeError as ex:
            rule.violate(label, "cannot enumerate paths: %s" % ex, loc)
            continue
        good = lambda w: [x for x in w if not x[0].startswith("temp")]
        succ = [(v, w) for v, w in res if v in (True, "Some")]
        fail = [(v, w) for v, w in res if v in (False, "None")]
        unk = [(v, w) for v, w in res if v not in (True, False, "Some", "None")]
        temps = sorted({x[0] for _, w in res for x in w if x[0].startswith("temp")})
        bad = False
        for v, w in succ:
            if not good(w):
                bad = True
                rule.violate(label, "a path reports success (%s) without moving the input's own cursor%s: a matcher that succeeds with zero width"
                             % (v, (" — it only moves a temporary (%s)" % ", ".join(temps)) if temps else ""), loc)
                break
        if not bad and m not in FAIL_WRITES_OK:
            for v, w in fail:
                if good(w):
                    bad = True
                    rule.violate(label, "a path reports failure (%s) after moving the cursor (%s)" % (v, ", ".join(x[0] for x in good(w))), crate.loc(good(w)[0][1].get("sp")) or loc)
                    break
        if not bad and m == "next":
            # `next` consumes exactly the character it hands out: `*cursor += c.len_utf8()` for the character read, or `skip(1)`
            why = next_amount(crate, b, [w for _, w in succ])
            if why:
                bad = True
                rule.violate(label, why, loc)
        if not bad and not succ:
            # no definite success path (result flows through something opaque): fall back to existence of a rooted write
            anyw = any(good(w) for _, w in res)
            if not anyw:
                # closures are not entered by the path walk: look for a rooted write anywhere in the body
                p = Paths(crate, b, advancers)
                anyw = any((p.write_of(n) or ("temp",))[0].startswith(("cursor", "field", "via")) for n in walk(b["value"]))
            if not anyw:
                bad = True
                rule.violate(label, "no write to the input's own cursor anywhere in the primitive%s" % ((" (only a temporary is moved: %s)" % ", ".join(temps)) if temps else ""), loc)
        if not bad:
            rule.inst(label, loc, "ok" if succ else "ok (existence only: no path with a definite result)",
                      {"paths": len(res), "success_paths": len(succ), "failure_paths": len(fail), "unknown_result_paths": len(unk),
                       "writes": sorted({x[0] for _, w in res for x in w})}, nontrivial=True)
    return len(todo)
