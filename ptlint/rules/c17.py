"""C17 — choice, sequence and leaf accessors reflect what was matched (preconditions of the parametricity argument + leaf data-flow)."""
import re

from .. import facts, edt, nodes, classes, tt
from ..hir import walk, strip_generics

PN = "pest_typed::predefined_node::"


def variant_of_pat(p):
    k = p["k"]
    if k in ("tstruct", "struct"):
        return p["res"].get("path", "?").rsplit("::", 1)[-1]
    if k in ("ref", "deref"):
        return variant_of_pat(p["p"])
    return None


def next_rule(rule, crate):
    from .. import prims

    class NextPaths(prims.Paths):
        def write_of(self, n):
            w = super().write_of(n)
            if w:
                return w
            if n["k"] in ("call", "mcall") and n.get("callee") and strip_generics(n["callee"]["path"]).endswith("Iterator::next"):
                src = n["recv"] if n["k"] == "mcall" else (n["args"][0] if n.get("args") else None)
                for _ in range(4):
                    if src is not None and prims._peel(src)["k"] == "local" and prims._peel(src)["var"] in self.lets:
                        src = self.lets[prims._peel(src)["var"]]
                if src is not None and any(m.get("callee") and strip_generics(m["callee"]["path"]).endswith("::chars") for m in walk(src)):
                    return ("read", n)
            # a crate-local helper that only looks (`peek_char(self)`): its body reads chars().next() and writes nothing
            if n["k"] in ("call", "mcall") and n.get("callee"):
                hb = crate.body(strip_generics(n["callee"]["path"])) or crate.body(n["callee"]["path"])
                if hb is not None and strip_generics(n["callee"]["path"]).startswith("pest_typed::") and \
                        not strip_generics(n["callee"]["path"]).startswith(prims.INPUT + "::"):
                    inner = NextPaths(crate, hb, self.adv)
                    evs = [inner.write_of(m) for m in walk(hb["value"])]
                    evs = [e for e in evs if e]
                    if evs and all(e[0] == "read" for e in evs) and len(evs) == 1:
                        return ("read", n)
            return None

    advancers = {prims.INPUT + "::" + m for m in prims.CONSUMERS} | {"pest_typed::position::Position::skip"}
    for label, fid, m in prims.consumers(crate):
        if m != "next":
            continue
        b = crate.body(fid)
        if b is None:
            rule.violate(label, "Input::next missing (anchor lost)")
            continue
        loc = crate.loc(b["value"].get("sp"))
        try:
            res = NextPaths(crate, b, advancers).results()
        except RuntimeError as ex:
            rule.violate(label, "cannot enumerate paths: %s" % ex, loc)
            continue
        bad = None
        n_succ = 0
        for v, w in res:
            if v in ("None", False):
                continue
            n_succ += 1
            kinds = [x[0] for x in w]
            reads = [i for i, k in enumerate(kinds) if k == "read"]
            writes = [i for i, k in enumerate(kinds) if k != "read" and not k.startswith("temp")]
            if len(reads) != 1:
                bad = "a success path reads the next character %d times" % len(reads)
            elif writes and writes[0] < reads[0]:
                bad = "a success path moves the cursor (%s) before it reads the character it returns: the character after the consumed one is handed out" % kinds[writes[0]]
        if not n_succ:
            bad = "no success path found"
        if not bad:
            # .. and it consumed exactly that character (not two, not `len_utf16` bytes): the content of ANY is the consumed text
            bad = prims.next_amount(crate, b, [[x for x in w if x[0] != "read"] for v, w in res if v not in ("None", False)])
        if bad:
            rule.violate(label, bad, loc)
        else:
            rule.inst(label, loc, "ok", {"success_paths": n_succ})


def run(ctx):
    fs = facts.load("core", "fx_macros", "fx_mc")
    world = nodes.World(fs, ["pest_typed", "fx_macros", "fx_mc"])
    ctx.analysed = {"crates": ["pest_typed", "fx_macros", "fx_mc (derive output incl. generated Choice12 / 13 / 17)"]}
    rp = ctx.rule("R17-PARAM", "ChoiceN: N variants, variant i named _i holds the i-th type parameter, accessor _i reads variant _i, helper "
                               "chain passes variant k on unchanged; SeqN: content is the tuple of the N parameters in order; parameters pairwise distinct")
    ro = ctx.rule("R17-ORDER", "alternatives are tried in type-parameter order and the first match wins (class CHOICE with children in parameter order); "
                               "sequence elements are matched in parameter order")
    rl = ctx.rule("R17-LEAF", "leaf nodes expose what they consumed: NEWLINE kind per literal, the char of range/ANY/Unicode nodes, the actual spelling "
                              "of a case-insensitive match, spans of PEEK/POP/skip-until, repetition iterators over content in order")
    n_choice = n_seq = 0
    for c in world.crates:
        for it in c.item_list:
            if it["kind"] == "Enum" and re.search(r"::Choice\d+$", it["id"]) and "helper" not in it["id"]:
                params = [g["name"] for g in it["generics"] if g["kind"] == "type"]
                vs = it["variants"]
                key = it["id"]
                loc = c.loc(it.get("sp"))
                bad = None
                if len(set(params)) != len(params):
                    bad = "type parameters are not pairwise distinct"
                elif len(vs) != len(params):
                    bad = "%d variants for %d type parameters" % (len(vs), len(params))
                else:
                    for i, v in enumerate(vs):
                        if v["name"] != "_%d" % i:
                            bad = "variant %d is named %s, expected _%d" % (i, v["name"], i)
                        elif len(v["fields"]) != 1 or c.tys(v["fields"][0]["ty"]) != params[i]:
                            bad = "variant _%d holds %s, expected the %d-th type parameter %s" % (i, [c.tys(f["ty"]) for f in v["fields"]], i, params[i])
                # accessors
                if not bad:
                    prefix = it["id"] + "::<" + ", ".join(params) + ">::"
                    for i in range(len(params)):
                        b = c.body(prefix + "_%d" % i)
                        if b is None:
                            bad = "accessor _%d missing" % i
                            break
                        pats = [variant_of_pat(n["pat"]) for n in walk(b["value"]) if n["k"] == "let_cond"] + \
                               [variant_of_pat(a["pat"]) for n in walk(b["value"]) if n["k"] == "match" for a in n["arms"]]
                        pats = [p for p in pats if p and p.startswith("_")]
                        if pats != ["_%d" % i]:
                            bad = "accessor _%d reads variant(s) %s" % (i, pats)
                            break
                if bad:
                    rp.violate(key, bad, loc)
                else:
                    n_choice += 1
                    rp.inst(key, loc, "ok", {"variants": len(vs)})
            if it["kind"] == "Struct" and re.search(r"::Seq\d+$", it["id"]):
                params = [g["name"] for g in it["generics"] if g["kind"] == "type"]
                key = it["id"]
                loc = c.loc(it.get("sp"))
                f = it["variants"][0]["fields"]
                want = "(" + ", ".join(params) + ("," if len(params) == 1 else "") + ")"
                if len(set(params)) != len(params):
                    rp.violate(key, "type parameters are not pairwise distinct", loc)
                elif len(f) != 1 or f[0]["name"] != "content" or c.tys(f[0]["ty"]) != want:
                    rp.violate(key, "content is %s, expected the tuple %s" % ([c.tys(x["ty"]) for x in f], want), loc)
                else:
                    # get_matched / into_matched / get_all: tuple of content.i(.matched) in ascending order
                    okacc = True
                    for acc, suffix in (("get_matched", ".matched"), ("into_matched", ".matched"), ("get_all", ""), ("into_all", "")):
                        bids = [b for b in c.bodies if b.startswith(it["id"] + "::<") and b.endswith("::" + acc)]
                        for bid in bids:
                            b = c.body(bid)
                            tup = None
                            for n in walk(b["value"]):
                                if n["k"] == "tuple":
                                    tup = n
                                    break
                            got = []
                            if tup:
                                for e in tup["es"]:
                                    from ..inv import short_descr
                                    import ptlint.inv as _inv
                                    _inv._LETS = {}
                                    got.append(short_descr(c, e))
                            wantl = ["self.content.%d%s" % (i, suffix) for i in range(len(params))]
                            if got != wantl:
                                okacc = False
                                rp.violate(key + "::" + acc, "returns %s, expected %s" % (got, wantl), c.loc(b["value"].get("sp")))
                    if okacc:
                        n_seq += 1
                        rp.inst(key, loc, "ok", {"arity": len(params)})
            # helper enums: else_if moves variant k to variant k of the next helper, first variant through f into Res
            if it["kind"] == "Enum" and "::helper::_" in it["id"]:
                params = [g["name"] for g in it["generics"] if g["kind"] == "type"]
                vs = [v["name"] for v in it["variants"]]
                key = it["id"]
                bid = it["id"] + "::<" + ", ".join(params) + ">::else_if"
                b = c.body(bid)
                if b is None:
                    bid = it["id"] + "::<" + ", ".join(params) + ">::else_then"
                    b = c.body(bid)
                if b is None:
                    rp.violate(key, "helper has neither else_if nor else_then", c.loc(it.get("sp")))
                    continue
                okh = True
                first = vs[0]
                for n in walk(b["value"]):
                    if n["k"] == "match":
                        for a in n["arms"]:
                            src = variant_of_pat(a["pat"])
                            body = a["body"]
                            dst = None
                            callsf = False
                            for m in walk(body):
                                if m["k"] == "call" and m.get("callee") and m["callee"].get("kind", "").startswith("Ctor"):
                                    dst = strip_generics(m["callee"]["path"]).rsplit("::", 1)[-1]
                                    break
                            for m in walk(body):
                                if m["k"] == "call" and m.get("callee") and strip_generics(m["callee"]["path"]).endswith("FnOnce::call_once"):
                                    callsf = True
                            if src == first:
                                if not callsf or (dst not in (None, "Res")):
                                    okh = False
                            elif src == "Res":
                                if callsf or dst not in (None, "Res"):
                                    okh = False
                            else:
                                if callsf or dst != src:
                                    okh = False
                if okh:
                    rp.inst(key, c.loc(it.get("sp")), "ok", {"variants": vs})
                else:
                    rp.violate(key, "helper chain does not pass every other variant on unchanged / does not run the closure exactly for its first variant", c.loc(b["value"].get("sp")))
    rp.require(100, "choice / sequence / helper types")
    # ORDER
    for key, pid, cid, loc, im in world.twin_pairs():
        p, args = im.self_adt()
        if re.search(r"::Choice\d+$", p) or re.search(r"::Seq\d+$", p):
            for fid, mode in ((pid, "parse"), (cid, "check")):
                cls = classes.classify(world.tree(fid))
                if "Choice" in p.rsplit("::", 1)[-1]:
                    params = [a["s"] for kind, a in args if kind == "t"]
                    want_cls = "CHOICE"
                else:
                    params = []
                    for kind, a in args:
                        if kind == "t":
                            pp, aa = nodes.type_adt(im.crate, a)
                            params.append(aa[0][1]["s"] if pp == PN + "Skipped" else a["s"])
                    want_cls = "SEQ"
                k2 = "%s [%s]" % (key, mode)
                if cls["cls"] == want_cls and cls["children"] == params:
                    ro.inst(k2, loc, "ok", {"order": params})
                else:
                    ro.violate(k2, "children are tried/matched in order %s, the type parameters are %s (class %s)" % (cls.get("children"), params, cls["cls"]), loc,
                               edt.fmt(world.tree(fid)))
            # parse twin: the variant / tuple slot built from alternative k's tree
            if "Choice" in p.rsplit("::", 1)[-1]:
                raw = world.tree(pid, erase=False)
                k = 0
                n = classes.strip(raw)
                okv = True
                while n[0] == "fork":
                    lf = n[3]
                    v = repr(lf)
                    if ("::_%d'" % k) not in v or ("('ev', %d)" % n[1]) not in v:
                        okv = False
                    n = n[4]
                    k += 1
                if okv:
                    ro.inst(key + " [variants]", loc, "ok", {"alternative k -> variant _k": k})
                else:
                    ro.violate(key + " [variants]", "a matched alternative is not stored in the variant of the same index", loc, edt.fmt(raw))
    ro.require(48, "ordered functions")
    # LEAF data-flow on parse twins (non-erased trees)
    leaf_specs = {
        "NEWLINE": None, "CharRange": None, "ANY": None, "Insens": None, "PEEK": None, "POP": None, "Skip": None, "SkipChar": None,
    }
    unicode_seen = 0
    for key, pid, cid, loc, im in world.twin_pairs():
        p, args = im.self_adt()
        if not p.startswith(PN):
            continue
        name = p[len(PN):]
        raw = world.tree(pid, erase=False)
        txt = edt.fmt(raw)
        bad = None
        if name == "NEWLINE":
            want = {"'\\r\\n'": "CRLF", "'\\n'": "LF", "'\\r'": "CR"}
            n = raw
            seen = {}
            while n[0] == "fork":
                lit = n[2][1][0][1] if n[2][1] else None
                kind = re.search(r"NewLineType::(\w+)", repr(n[3]))
                seen[lit] = kind.group(1) if kind else None
                # the matched literal decides alone: the success branch returns at once, with the cursor that literal produced
                okb = n[3]
                if not (okb[0] == "leaf" and okb[1] == "ret" and ("('cur', ('out', %d))" % n[1]) in repr(okb[2])):
                    bad = "after matching %s the node goes on matching / does not return the cursor of that match" % lit
                n = n[4]
            if seen != want and not bad:
                bad = "literal -> kind table is %s, expected %s" % (seen, want)
        elif name in ("CharRange", "ANY") or name.startswith("unicode::"):
            if name.startswith("unicode::"):
                unicode_seen += 1
                if unicode_seen > 3:
                    continue
            # content derives from the same primitive event that advanced the cursor
            ok_leaf = [lf for lf in classes.all_leaves(raw) if lf[1] == "ret" and lf[2][0] == "some"]
            if not ok_leaf:
                bad = "no success leaf"
            for lf in ok_leaf:
                v = repr(lf[2])
                m = re.search(r"\('cur', \('out', (\d+)\)\)", v)
                if not m:
                    bad = "success does not return the advanced cursor"
                    continue
                eid = m.group(1)
                if name == "CharRange":
                    if ("Input::span" not in v) or ("('cur', 'IN'), ('cur', ('out', %s))" % eid not in v) or "chars" not in v:
                        bad = "content is not the first char of the text between start and the advanced cursor"
                else:
                    if "('pure', 'char', (('ev', %s),))" % eid not in v:
                        bad = "content is not the char read by the primitive that advanced the cursor"
        elif name in ("Insens", "PEEK", "Skip", "SkipChar", "PEEK_ALL"):
            for lf in classes.all_leaves(raw):
                if lf[1] == "ret" and lf[2][0] == "some":
                    v = repr(lf[2])
                    # ('some', ('tup', (CUR, NODE))): NODE must hold span(start, CUR) for the very cursor that is returned
                    ret_cur = lf[2][1][1][0] if lf[2][1][0] == "tup" else None
                    spans = [t for t in classes.subterms(lf[2]) if isinstance(t, tuple) and len(t) == 3 and t[0] == "pure" and t[1] == "Input::span"]
                    if not spans or any(sp[2] != (("cur", "IN"), ret_cur) for sp in spans):
                        bad = "span / content is not span(start, cursor after the match): returns cursor %r with %s" % (
                            ret_cur, [sp[2] for sp in spans])
                    if name == "Insens" and "as_str" not in v:
                        bad = "content is not the text of span(start, end)"
        elif name == "POP":
            for lf in classes.all_leaves(raw):
                if lf[1] == "ret" and lf[2][0] == "some":
                    v = repr(lf[2])
                    if "stack_pop" not in v:
                        bad = "span is not the popped span"
        else:
            continue
        if bad:
            rl.violate(key, bad, loc, txt)
        else:
            rl.inst(key, loc)
    # repetition iterators
    c = fs["pest_typed"]
    import ptlint.inv as _inv
    for bid in sorted(c.bodies):
        if bid.endswith("::iter_matched") or bid.endswith("::into_iter_matched") or bid.endswith("::iter_all") or bid.endswith("::into_iter_all"):
            _inv._LETS = {}
            d = _inv.short_descr(c, c.body(bid)["value"])
            acc = bid.rsplit("::", 1)[-1]
            want = {"iter_matched": "self.content.iter().map(closure)", "into_iter_matched": "self.content.into_iter().map(closure)",
                    "iter_all": "self.content.iter()", "into_iter_all": "self.content.into_iter()"}[acc]
            okc = d == want
            if okc and "matched" in acc:
                clo = [n for n in walk(c.body(bid)["value"]) if n["k"] == "closure"]
                _inv._LETS = {}
                okc = bool(clo) and _inv.short_descr(c, clo[0]["body"]).endswith(".matched")
            if okc:
                rl.inst(bid, c.loc(c.body(bid)["value"].get("sp")))
            else:
                rl.violate(bid, "iterator is %s, expected %s over content in order (mapped to .matched)" % (d, want), c.loc(c.body(bid)["value"].get("sp")))
    rl.require(15, "leaf / iterator functions")
    # the character a leaf stores is handed out by Input::next: it must be the one the cursor moved over
    rnx = ctx.rule("R17-NEXT", "every implementation of Input::next returns, on its success paths, the character it read *before* it moved the "
                               "cursor (one read of chars().next(), no cursor write before it), so ANY's content is the consumed character")
    next_rule(rnx, fs["pest_typed"])
    rnx.require(2, "implementations of next")
    # what a leaf reads is the text at the cursor, in every build profile: get() slices from the cursor field up to end() (C08's
    # instances; seed C17-8: the release arm of SubInput2::get sliced from `start`)
    from . import c08
    rget = ctx.rule("R17-GET", "for each Input impl, in debug and release builds, get() slices the input from the cursor field (C08's R08-GET instances): "
                               "the text a leaf compares and stores is the text it consumes")
    frel = facts.load("core", "rel")
    c08.get_rule(rget, frel["pest_typed"], frel["pest_typed.rel"])
    rget.require(6, "impl x profile")
    # built-in aliases are choices too: a character's variant index is the position of its alternative in pest's definition
    from . import c01
    ctx.adopt(c01.run_builtin_order, {"R01-BUILTIN-ORDER": "R17-BUILTIN"})
    from . import store
    rst = ctx.rule("R17-STORE", "container nodes return, on every path, a node that contains the node of each child that matched on that path "
                                "(the accessors can only reflect what was stored)")
    store.store_rule(rst, world)
    rst.require(30, "container functions")
    # match_choices!: read the expanded `match` from the typed HIR of the fixture (arities 2, 3, 11 = runtime ChoiceN; 12, 13, 17 = derive-generated)
    rm = ctx.rule("R17-MC", "match_choices!: in the expansion arm i matches variant _i of ChoiceN, binds the i-th alternative's node and keeps the "
                            "i-th body; for N >= 12 the ChoiceN is the one the derive generates (variant _i holds alternative i)")
    try:
        fm = facts.load("fx_mc")["fx_mc"]
        exp_mc = tt.load_expect("fx_mc")
    except facts.BuildFailed as ex:
        fm = None
        rm.violate("fx_mc", "fixture does not compile: %s" % str(ex)[:300])
    if fm is not None:
        for mod, info in sorted(exp_mc["modules"].items()):
            n_alt = info["arity"]
            b = fm.body("fx_mc::%s::pick" % mod)
            key = "%s: match_choices! over %d alternatives" % (mod, n_alt)
            if b is None:
                rm.violate(key, "fixture function missing")
                continue
            ms = [m for m in walk(b["value"]) if m["k"] == "match" and m.get("src") == "normal"]
            if len(ms) != 1:
                rm.violate(key, "expected exactly one `match` in the expansion, found %d" % len(ms))
                continue
            arms = ms[0]["arms"]
            bad = None
            if len(arms) != n_alt:
                bad = "%d arms for %d alternatives" % (len(arms), n_alt)
            for i, arm in enumerate(arms):
                if bad:
                    break
                pat = arm["pat"]
                while pat["k"] in ("ref", "deref"):
                    pat = pat["p"]
                path = (pat.get("res") or {}).get("path", "")
                if not re.search(r"::Choice%d::_%d$" % (n_alt, i), path):
                    bad = "arm %d matches %s, expected variant _%d of Choice%d" % (i, path or pat["k"], i, n_alt)
                    break
                binds = [q for q in pat.get("ps", []) if q["k"] == "bind"]
                ty = fm.tys(binds[0]["ty"]) if binds and binds[0].get("ty") is not None else "?"
                if not re.search(r"::rules::a%d<" % i, ty):
                    bad = "arm %d binds a value of type %s, expected the node of alternative a%d" % (i, ty, i)
                    break
                lits = [m["v"]["int"] for m in walk(arm["body"]) if m["k"] == "lit" and m.get("v") and "int" in m["v"]]
                if lits != [str(100 + i)]:
                    bad = "arm %d carries the body of another arm (literal %s, expected %d)" % (i, lits, 100 + i)
                    break
            if bad:
                rm.violate(key, bad, fm.loc(ms[0].get("sp")))
            else:
                rm.inst(key, fm.loc(ms[0].get("sp")), "ok", {"choice": (arms[0]["pat"].get("res") or {}).get("path", "").rsplit("::", 1)[0]})
        rm.require(6, "arities")
    ctx.assume("parametricity: ChoiceN / SeqN / helper enums are generic over distinct type parameters, so rustc itself rejects routing a payload "
               "to a variant or slot of another parameter; the rules check the preconditions and the parts types do not cover")
    ctx.assume("match_choices! expansion and generated arities >= 12 are decided by the generator-template rules under C20 (R17-MC)")
    ctx.explanation = ("Item tables (variants, fields, generics) and accessor bodies of every ChoiceN / SeqN / helper enum, the order of children "
                       "in their effect decision trees, and the data-flow of leaf payloads in non-erased parse trees.")
