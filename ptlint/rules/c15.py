"""C15 — traversal helpers enumerate the tokens of the pair tree (partial: the structural clauses).

What is decided (each a necessary condition of the property; none decides the behaviour on inputs):

  R15-FWD / R15-RULE / R15-LOOKAHEAD   C02's instances: `children()` are the direct child tokens in input order.
  R15-TOKEN     `children` / `self_or_children` return the vector the forwarding closure pushes to (push only, in call order);
                `as_token` = { rule(self), span(self), children(self) }; `to_thin` = { self.rule, self.span.start(),
                self.span.end(), children mapped through to_thin by an order-preserving iterator chain };
                `as_thin_token` = to_thin(as_token(self)).
  R15-WALK      the two traversals are work-list loops.  On every path through the loop: a token drawn from the work list
                is handed to the callback exactly once and its `children` are moved to a work list exactly once (after
                the callback), by an order-preserving back-append; the callback is called with drawn tokens only; the
                work list is seeded once with `p.as_token()`.
  R15-ORDER     level-order: draws from the front of a queue, children appended at the back of a queue, queues are
                swapped only when one of them is known to be empty.  pre-order: draws from the front of the queue on top of
                the stack, children pushed as the new top, the top is popped only when it is known to be empty; the depth
                handed to the callback is `stack.len() - 1`, read before the children are pushed.
  R15-EXIT      the traversal returns `Ok` only on paths where every work list is known to be empty (emptiness facts from
                `pop_front() == None`, `last_mut() == None`, `is_empty()`, carried through `swap`).
  R15-LOOPS     every path round a traversal loop changes a work list the exit tests read (R11-LOOPS on these loops).
  R15-RENDER    `write_tree_to` renders through `iterate_pre_order`; per token: indentation "    " repeated `depth` times
                (Display), the rule (Debug), and — exactly when `children.is_empty()` — a space and `span.as_str()`
                (Debug), then a newline.  The template is decoded from the `format_args!` lowering.
  R15-DELEG     the `PairTree` methods call the free function of the same name with (self, f); `format_as_tree` returns
                the String that `write_tree_to` wrote.
Not decided: that spans are nested / ordered (a fact about the parse), and equality with pest's own pair tree.
"""
from .. import facts, prims
from ..hir import walk, strip_generics, children as hir_children

IT = "pest_typed::iterators::"
OK = "core::result::Result::Ok"
SOME = "core::option::Option::Some"
NONE = "core::option::Option::None"

# order-preserving conversions a children vector may pass through on its way to a work list
CONVERSIONS = ("core::convert::Into::into", "core::convert::From::from", "core::iter::traits::collect::FromIterator::from_iter",
               "core::iter::traits::collect::IntoIterator::into_iter", "core::iter::traits::iterator::Iterator::collect",
               "core::clone::Clone::clone", "core::iter::sources::once::once")
BACK_APPEND = {"extend": "core::iter::traits::collect::Extend::extend", "push": "alloc::vec::Vec::push",
               "push_back": "alloc::collections::vec_deque::VecDeque::push_back", "append": None}
DRAW_FRONT = ("alloc::collections::vec_deque::VecDeque::pop_front",)
DRAW_OTHER = ("alloc::collections::vec_deque::VecDeque::pop_back", "alloc::vec::Vec::pop", "core::iter::traits::iterator::Iterator::next",
              "alloc::vec::Vec::remove", "alloc::collections::vec_deque::VecDeque::remove", "alloc::vec::Vec::swap_remove")
TOP_OF = ("core::slice::<impl [T]>::last_mut",)
PEEKS = ("core::slice::<impl [T]>::last_mut", "core::slice::<impl [T]>::last", "core::slice::<impl [T]>::first", "core::slice::<impl [T]>::first_mut",
         "alloc::collections::vec_deque::VecDeque::front", "alloc::collections::vec_deque::VecDeque::back",
         "alloc::collections::vec_deque::VecDeque::front_mut", "alloc::collections::vec_deque::VecDeque::back_mut")
IS_EMPTY = ("alloc::vec::Vec::is_empty", "alloc::collections::vec_deque::VecDeque::is_empty")
CALLS_F = ("core::ops::function::FnMut::call_mut", "core::ops::function::Fn::call", "core::ops::function::FnOnce::call_once")


def peel(e):
    while True:
        k = e["k"]
        if k in ("addr_of", "use", "cast"):
            e = e["e"]
        elif k == "unary" and e.get("op") == "*":
            e = e["e"]
        elif k == "block" and not e.get("stmts") and "tail" in e:
            e = e["tail"]
        else:
            return e


def cpath(e):
    return strip_generics(e["callee"]["path"]) if e.get("callee") else None


def call_args(e):
    return ([e["recv"]] if e["k"] == "mcall" else []) + list(e.get("args") or [])


class Terms:
    """Expressions as nested tuples, single-assignment `let`s resolved; used to compare small bodies with what they must denote."""

    def __init__(self, crate, body):
        self.c = crate
        self.lets = {}
        assigned = set()
        for n in walk(body["value"]):
            if n["k"] == "block":
                for s in n.get("stmts", []):
                    if s["k"] == "let" and "init" in s and s["pat"].get("k") == "bind":
                        self.lets[s["pat"]["var"]] = s["init"]
            if n["k"] in ("assign", "assign_op") and n["l"]["k"] == "local":
                assigned.add(n["l"]["var"])
        for v in assigned:
            self.lets.pop(v, None)
        self.names = {p["var"]: p.get("name") for p in body.get("params", []) if p.get("k") == "bind"}

    def t(self, e, depth=0):
        e = peel(e)
        k = e["k"]
        if depth > 30:
            return ("deep",)
        if k == "local":
            if e["var"] in self.lets:
                return self.t(self.lets[e["var"]], depth + 1)
            if e["var"] in self.names:
                return ("param", self.names[e["var"]])
            return ("local", e["var"])
        if k == "field":
            return ("field", str(e["name"]), self.t(e["base"], depth + 1))
        if k in ("call", "mcall"):
            p = cpath(e)
            args = tuple(self.t(a, depth + 1) for a in call_args(e))
            if p is None:
                return ("callv", self.t(e["f"], depth + 1)) + args if e["k"] == "call" else ("mcall?", e.get("name")) + args
            return ("call", p) + args
        if k == "lit":
            v = e.get("v") or {}
            for key in ("str", "int", "bool", "char", "bytes"):
                if key in v:
                    return ("lit", key, v[key])
            return ("lit", "?", None)
        if k == "struct":
            return ("struct", (e.get("res") or {}).get("path"), tuple(sorted((f["name"], self.t(f["e"], depth + 1)) for f in e["fields"])))
        if k == "tuple":
            return ("tuple",) + tuple(self.t(x, depth + 1) for x in e["es"])
        if k == "binary":
            return ("bin", e["op"], self.t(e["l"], depth + 1), self.t(e["r"], depth + 1))
        if k == "unary":
            return ("un", e["op"], self.t(e["e"], depth + 1))
        if k == "closure":
            return ("closure", id(e))
        if k == "def":
            return ("def", strip_generics(e.get("path") or "?"))
        if k == "block":
            return ("block", id(e))
        return (k, id(e))


def fmt_term(t):
    if not isinstance(t, tuple):
        return str(t)
    if t[0] in ("param",):
        return t[1]
    if t[0] == "local":
        return "_"
    if t[0] == "field":
        return "%s.%s" % (fmt_term(t[2]), t[1])
    if t[0] == "call":
        return "%s(%s)" % (t[1].rsplit("::", 1)[-1], ", ".join(fmt_term(a) for a in t[2:]))
    if t[0] == "lit":
        return repr(t[2])
    if t[0] == "bin":
        return "%s %s %s" % (fmt_term(t[2]), t[1], fmt_term(t[3]))
    if t[0] == "struct":
        return "{%s}" % ", ".join("%s: %s" % (n, fmt_term(v)) for n, v in t[2])
    return t[0]


# ---------------------------------------------------------------- R15-TOKEN

ORDER_KEEPING = {
    "core::slice::<impl [T]>::iter", "core::iter::traits::collect::IntoIterator::into_iter", "core::iter::traits::iterator::Iterator::collect",
    "core::iter::traits::iterator::Iterator::cloned", "core::iter::traits::iterator::Iterator::copied", "core::iter::traits::collect::FromIterator::from_iter",
    "alloc::vec::Vec::as_slice", "core::ops::deref::Deref::deref",
}
MAP = "core::iter::traits::iterator::Iterator::map"


def closure_of(e):
    e = peel(e)
    return e if e["k"] == "closure" else None


def mapped_children(crate, tm, e, want_base, elem_fn):
    """Is e `want_base.children` taken through an order-preserving chain with exactly one map(|c| elem_fn(c))?  Returns None
    when it is, else the reason."""
    maps = 0
    for _ in range(12):
        e = peel(e)
        if e["k"] == "local" and e["var"] in tm.lets:
            e = tm.lets[e["var"]]
            continue
        if e["k"] == "field":
            if tm.t(e) == ("field", "children", want_base):
                return None if maps == 1 else "children are not mapped through %s exactly once (%d maps)" % (elem_fn.rsplit("::", 1)[-1], maps)
            return "the chain starts at %s, not at the token's own children" % fmt_term(tm.t(e))
        if e["k"] not in ("call", "mcall") or not cpath(e):
            return "unrecognised step `%s` in the children chain" % e["k"]
        p = cpath(e)
        a = call_args(e)
        if p == MAP and len(a) == 2:
            fn = peel(a[1])
            ok = False
            if fn["k"] == "closure":
                ps = fn.get("params") or []
                body = peel(fn["body"]["value"] if isinstance(fn.get("body"), dict) and "value" in fn["body"] else fn["body"])
                if len(ps) == 1 and ps[0].get("k") == "bind" and body["k"] in ("call", "mcall") and cpath(body) == elem_fn:
                    arg = peel(call_args(body)[0])
                    ok = arg["k"] == "local" and arg["var"] == ps[0]["var"] and len(call_args(body)) == 1
            elif fn["k"] == "def" and strip_generics(fn.get("path") or "") == elem_fn:
                ok = True
            if not ok:
                return "the mapping function is not |c| %s(c)" % elem_fn.rsplit("::", 1)[-1]
            maps += 1
            e = a[0]
            continue
        if p in ORDER_KEEPING and len(a) == 1:
            e = a[0]
            continue
        return "`%s` in the children chain is not known to keep every element in order" % p.rsplit("::", 1)[-1]
    return "children chain too long"


def collector_rule(r, crate, fid, each_fn):
    """`let mut v = Vec::new(); self.<each_fn>(|t| v.push(t)); v`"""
    b = crate.body(fid)
    if b is None:
        r.violate(fid, "function missing")
        return
    loc = crate.loc(b["value"].get("sp"))
    tm = Terms(crate, b)
    val = b["value"]
    tail = peel(val["tail"]) if val["k"] == "block" and "tail" in val else peel(val)
    if tail["k"] != "local":
        r.violate(fid, "does not return a collected vector (returns `%s`)" % tail["k"], loc)
        return
    v = tail["var"]
    init = tm.lets.get(v)
    if init is None or tm.t(init)[:2] != ("call", "alloc::vec::Vec::new"):
        r.violate(fid, "the returned vector does not start empty (`Vec::new()`)", loc)
        return
    bad = []
    pushes = 0
    feeds = 0
    for n in walk(val):
        if n["k"] in ("call", "mcall") and cpath(n):
            p = cpath(n)
            a = call_args(n)
            if p == each_fn:
                feeds += 1
                recv = tm.t(a[0])
                if recv != ("param", "self"):
                    bad.append("%s is called on %s, not on self" % (each_fn.rsplit("::", 1)[-1], fmt_term(recv)))
                cl = closure_of(a[1]) if len(a) > 1 else None
                if cl is None:
                    bad.append("the callback is not a closure")
                    continue
                ps = cl.get("params") or []
                cb = cl["body"]["value"] if isinstance(cl.get("body"), dict) and "value" in cl["body"] else cl["body"]
                inner = [m for m in walk(cb) if m["k"] in ("call", "mcall") and cpath(m)]
                if len(inner) != 1 or cpath(inner[0]) != "alloc::vec::Vec::push":
                    bad.append("the callback does something other than one `push`: %s" % [cpath(m).rsplit("::", 1)[-1] for m in inner])
                    continue
                pa = call_args(inner[0])
                tgt, what = peel(pa[0]), peel(pa[1])
                if not (tgt["k"] == "local" and tgt["var"] == v):
                    bad.append("the callback pushes to another vector")
                if not (len(ps) == 1 and what["k"] == "local" and what["var"] == ps[0].get("var")):
                    bad.append("the callback does not push the token it was given")
                pushes += 1
            elif any(peel(x)["k"] == "local" and peel(x)["var"] == v for x in a) and p != "alloc::vec::Vec::push":
                bad.append("the collected vector is also passed to `%s`" % p.rsplit("::", 1)[-1])
    if feeds != 1 or pushes != 1:
        bad.append("expected one %s call with one pushing callback, found %d / %d" % (each_fn.rsplit("::", 1)[-1], feeds, pushes))
    if bad:
        r.violate(fid, "; ".join(bad), loc)
    else:
        r.inst(fid, loc, "ok", {"collects": each_fn})


def token_rules(r, crate):
    SELF = ("param", "self")
    # children / self_or_children
    collector_rule(r, crate, IT + "Pair::children", IT + "Pair::for_each_child")
    collector_rule(r, crate, IT + "Pairs::self_or_children", IT + "Pairs::for_self_or_each_child")
    # as_token
    fid = IT + "Pair::as_token"
    b = crate.body(fid)
    if b is None:
        r.violate(fid, "function missing")
    else:
        tm = Terms(crate, b)
        loc = crate.loc(b["value"].get("sp"))
        val = b["value"]
        t = tm.t(val["tail"] if val["k"] == "block" and "tail" in val else val)
        want = {"rule": ("call", "pest_typed::typed_node::RuleStorage::rule", SELF), "span": ("call", "pest_typed::typed_node::Spanned::span", SELF),
                "children": ("call", IT + "Pair::children", SELF)}
        if t[0] != "struct" or not (t[1] or "").endswith("iterators::Token"):
            r.violate(fid, "does not return a Token literal", loc)
        else:
            got = dict(t[2])
            bad = ["%s is %s, expected %s" % (k, fmt_term(got.get(k)), fmt_term(w)) for k, w in want.items() if got.get(k) != w]
            (r.violate(fid, "; ".join(bad), loc) if bad else r.inst(fid, loc, "ok", {k: fmt_term(v) for k, v in got.items()}))
    # to_thin
    fid = IT + "Token::<'i, R>::to_thin"
    b = crate.body(fid)
    if b is None:
        r.violate(fid, "function missing")
    else:
        tm = Terms(crate, b)
        loc = crate.loc(b["value"].get("sp"))
        val = b["value"]
        tail = peel(val["tail"] if val["k"] == "block" and "tail" in val else val)
        if tail["k"] != "struct" or not ((tail.get("res") or {}).get("path") or "").endswith("iterators::ThinToken"):
            r.violate(fid, "does not return a ThinToken literal", loc)
        else:
            fl = {f["name"]: f["e"] for f in tail["fields"]}
            span = ("field", "span", SELF)
            want = {"rule": ("field", "rule", SELF), "start": ("call", "pest_typed::span::Span::start", span), "end": ("call", "pest_typed::span::Span::end", span)}
            bad = ["%s is %s, expected %s" % (k, fmt_term(tm.t(fl[k])) if k in fl else "absent", fmt_term(w)) for k, w in want.items()
                   if k not in fl or tm.t(fl[k]) != w]
            if "children" not in fl:
                bad.append("children absent")
            else:
                why = mapped_children(crate, tm, fl["children"], SELF, "pest_typed::iterators::Token::to_thin")
                if why:
                    bad.append("children: " + why)
            (r.violate(fid, "; ".join(bad), loc) if bad else r.inst(fid, loc, "ok", {k: fmt_term(tm.t(v)) for k, v in fl.items() if k != "children"}))
    # as_thin_token
    fid = IT + "Pair::as_thin_token"
    b = crate.body(fid)
    if b is None:
        r.violate(fid, "function missing")
    else:
        tm = Terms(crate, b)
        loc = crate.loc(b["value"].get("sp"))
        t = tm.t(b["value"])
        want = ("call", "pest_typed::iterators::Token::to_thin", ("call", IT + "Pair::as_token", SELF))
        (r.inst(fid, loc, "ok") if t == want else r.violate(fid, "is %s, expected to_thin(as_token(self))" % fmt_term(t), loc))


# ---------------------------------------------------------------- work-list traversals

class Walk(prims.Paths):
    """Paths through a traversal function with work-list events and emptiness facts.

    events (in `writes`):  ('DRAW', x, how, src_var, src_kind)   ('F', token_var|None, depth_expr)   ('T', x, op, target_var, note)
                           ('SWAP', a, b, known_empty)   ('POPTOP', stack_var, top_known_empty)   ('SEED', target_var)
    facts[var] == 'E': that work list (or alias of the top queue) is empty here.
    """

    def __init__(self, crate, body):
        super().__init__(crate, body, set())
        self.c = crate
        self.budget = 20000
        self.fvar = body["params"][1]["var"] if len(body["params"]) > 1 else None
        self.pvar = body["params"][0]["var"]
        self.kind = {}        # var -> 'Q' (queue of tokens) | 'S' (stack of queues)
        self.alias = {}       # var bound from `stack.last_mut()` -> ('top', stack var) etc.
        self.finished = []    # (how, events, facts): every path that ends an iteration or leaves the function
        for n in walk(body["value"]):
            if n["k"] == "block":
                for s in n.get("stmts", []):
                    if s["k"] == "let" and s["pat"].get("k") == "bind" and s["pat"].get("ty") is not None:
                        ty = crate.tys(s["pat"]["ty"])
                        k = self.ty_kind(ty)
                        if k:
                            self.kind[s["pat"]["var"]] = k

    @staticmethod
    def ty_kind(ty):
        t = ty.replace(" ", "")
        tok = "pest_typed::iterators::Token<"
        for q in ("alloc::collections::vec_deque::VecDeque<", "alloc::vec::Vec<"):
            if t.startswith(q + tok):
                return "Q"
            for q2 in ("alloc::collections::vec_deque::VecDeque<", "alloc::vec::Vec<"):
                if t.startswith(q + q2 + tok):
                    return "S"
        return None

    def root(self, e):
        e = peel(e)
        return e["var"] if e["k"] == "local" else None

    def is_token(self, b):
        return b.get("ty") is not None and self.c.tys(b["ty"]).replace("&", "").replace("mut ", "").strip().startswith("pest_typed::iterators::Token<")

    def absval(self, e, facts):
        x = peel(e)
        if x["k"] in ("call", "mcall") and cpath(x) in ("alloc::collections::vec_deque::VecDeque::new", "alloc::vec::Vec::new",
                                                         "core::default::Default::default", "alloc::collections::vec_deque::VecDeque::with_capacity",
                                                         "alloc::vec::Vec::with_capacity"):
            return "E"
        return super().absval(e, facts)

    # -- conversions
    def through_conversions(self, e):
        notes = []
        for _ in range(10):
            e = peel(e)
            if e["k"] == "local" and e["var"] in self.lets and e["var"] not in self.assigned and e["var"] not in self.kind:
                e = self.lets[e["var"]]
                continue
            if e["k"] in ("call", "mcall") and cpath(e) and len(call_args(e)) == 1 and cpath(e) != IT + "Pair::as_token":
                p = cpath(e)
                if p not in CONVERSIONS:
                    notes.append(p.rsplit("::", 1)[-1])
                e = call_args(e)[0]
                continue
            break
        return e, notes

    # -- events of a node (after its operands)
    def write_of(self, n):
        k = n["k"]
        if k not in ("call", "mcall") or not cpath(n):
            return None
        p = cpath(n)
        a = call_args(n)
        if p in CALLS_F:
            if n["k"] == "call" and isinstance(n.get("f"), dict) and self.root(n["f"]) == self.fvar:
                a = [n["f"]] + a
            if a and self.root(a[0]) == self.fvar:
                tok = self.root(a[1]) if len(a) > 1 else None
                return ("F", tok, a[2] if len(a) > 2 else None)
        name = p.rsplit("::", 1)[-1]
        if name in ("extend", "push", "push_back", "push_front", "append", "insert", "extend_from_slice") and len(a) >= 2:
            tgt = self.root(a[0])
            if tgt in self.kind or tgt in self.alias:
                src, notes = self.through_conversions(a[-1])
                if src["k"] == "field" and str(src["name"]) == "children" and self.root(src["base"]) is not None:
                    return ("T", self.root(src["base"]), name, tgt, tuple(notes))
                if src["k"] in ("call", "mcall") and cpath(src) == IT + "Pair::as_token" and self.root(call_args(src)[0]) == self.pvar:
                    return ("SEED", tgt, name, tuple(notes))
                if src["k"] == "local" and self.is_tokenish(src):
                    return ("REQUEUE", src["var"], name, tgt)
                return ("PUT", tgt, name)
        if p == "core::mem::swap" and len(a) == 2:
            return ("SWAP", self.root(a[0]), self.root(a[1]))
        if p == "alloc::vec::Vec::pop" and self.kind.get(self.root(a[0])) == "S":
            return ("POPTOP", self.root(a[0]))
        return None

    def is_tokenish(self, e):
        return e.get("ty") is not None and "pest_typed::iterators::Token<" in self.c.tys(e["ty"])

    def seq(self, subs, i, node, writes, facts):
        if i == len(subs):
            w = self.write_of(node)
            if w:
                if w[0] in ("T", "SEED", "PUT", "REQUEUE"):
                    tgt = w[3] if w[0] in ("T", "REQUEUE") else w[1]
                    facts = {k: v for k, v in facts.items() if k != tgt and self.alias.get(k, (None, None))[1] != tgt}
                elif w[0] == "SWAP":
                    fa, fb = facts.get(w[1]), facts.get(w[2])
                    w = w + (fa == "E" or fb == "E",)
                    facts = {k: v for k, v in facts.items() if k not in (w[1], w[2])}
                    if fb:
                        facts[w[1]] = fb
                    if fa:
                        facts[w[2]] = fa
                elif w[0] == "POPTOP":
                    tops = [v for v, al in self.alias.items() if al == ("top", w[1])]
                    w = w + (any(facts.get(v) == "E" for v in tops),)
                    facts = {k: v for k, v in facts.items() if k != w[1] and k not in tops}
                writes = writes + (w,)
            elif node["k"] in ("call", "mcall") and cpath(node):
                # any other `&mut` use of a work list: its emptiness is unknown afterwards
                nm = cpath(node).rsplit("::", 1)[-1]
                if nm not in ("len", "is_empty", "last_mut", "last", "front", "front_mut", "first", "iter"):
                    for x in call_args(node):
                        v = self.root(x)
                        if v in self.kind or v in self.alias:
                            facts = {k: f for k, f in facts.items() if k != v}
            yield "norm", self.absval(node, facts), writes, facts
            return
        for oc, v, w, f in self.run(subs[i], writes, facts):
            if oc != "norm":
                yield oc, v, w, f
            else:
                yield from self.seq(subs, i + 1, node, w, f)

    # -- conditions
    def draw_of(self, init, pat):
        """`Some(x) = <work list>.pop_front()` and the like."""
        e = peel(init)
        if e["k"] not in ("call", "mcall") or not cpath(e):
            return None
        p = cpath(e)
        a = call_args(e)
        src = self.root(a[0]) if a else None
        tag = self.pat_tag(pat)
        if not tag or tag[0] != "Some":
            return None
        binds = [q for q in (pat.get("ps") or []) if q.get("k") == "bind"]
        if p in DRAW_FRONT + DRAW_OTHER and (src in self.kind or src in self.alias) and binds and self.is_token(binds[0]):
            return ("DRAW", binds[0]["var"], p.rsplit("::", 1)[-1], src)
        if p in PEEKS and self.kind.get(src) == "S" and binds:
            self.alias[binds[0]["var"]] = ("top" if p in TOP_OF else "other:" + p.rsplit("::", 1)[-1], src)
        return None

    def empties(self, cond, positive):
        """Work lists known to be empty when cond has this truth value."""
        c = cond
        if c["k"] == "let_cond":
            e = peel(c["init"])
            tag = self.pat_tag(c["pat"])
            if e["k"] in ("call", "mcall") and cpath(e) in DRAW_FRONT + DRAW_OTHER[:2] + PEEKS and tag:
                v = self.root(call_args(e)[0])
                if (tag[0] == "Some" and tag[1] and not positive) or (tag[0] == "None" and positive):
                    return [v]
            return []
        c = peel(c)
        neg = False
        while c["k"] == "unary" and c.get("op") == "!":
            neg = not neg
            c = peel(c["e"])
        if c["k"] in ("call", "mcall") and cpath(c) in IS_EMPTY and positive != neg:
            return [self.root(call_args(c)[0])]
        return []

    def children_empty(self, cond, positive):
        """`x.children.is_empty()` known to hold: the token variable x."""
        if cond["k"] == "let_cond":
            return None
        c = peel(cond)
        neg = False
        while c["k"] == "unary" and c.get("op") == "!":
            neg = not neg
            c = peel(c["e"])
        if c["k"] in ("call", "mcall") and cpath(c) in IS_EMPTY and positive != neg:
            x = peel(call_args(c)[0])
            if x["k"] == "field" and str(x["name"]) == "children":
                return self.root(x["base"])
        return None

    def run_cond(self, cond, writes, facts):
        if cond["k"] == "binary" and cond.get("op") in ("&&", "||"):
            yield from super().run_cond(cond, writes, facts)
            return
        for oc, v, w, f in super().run_cond(cond, writes, facts):
            if oc[0] == "cond":
                if cond["k"] == "let_cond" and oc[1]:
                    d = self.draw_of(cond["init"], cond["pat"])
                    if d:
                        w = w + (d,)
                for var in self.empties(cond, oc[1]):
                    if var is not None:
                        f = dict(f)
                        f[var] = "E"
                ce = self.children_empty(cond, oc[1])
                if ce:
                    f = dict(f)
                    f["ce:" + ce] = True
            yield oc, v, w, f

    # -- control
    def run(self, e, writes, facts):
        k = e["k"]
        if k == "loop":
            # facts at the loop head: what holds on entry and on every back edge (fixpoint, at most a few rounds)
            head = dict(facts)
            for _ in range(6):
                mark = len(self.finished)
                out = []
                back = []
                for oc, v, w, f in super(Walk, self).run(e["body"], writes, head):
                    if oc == "ret":
                        out.append((oc, v, w, f))
                    elif oc == "break":
                        out.append(("norm", None, w, f))
                    else:
                        back.append(("back-edge", w, f))
                new_head = {k: x for k, x in head.items() if all(bf.get(k) == x for _, _, bf in back)}
                if new_head == head:
                    self.finished.extend(back)
                    yield from out
                    return
                del self.finished[mark:]
                head = new_head
            raise RuntimeError("loop-head facts do not stabilise")
        if k == "match" and e.get("src") == "normal":
            scr = peel(e["scrut"])
            if scr["k"] in ("call", "mcall") and cpath(scr) in DRAW_FRONT + DRAW_OTHER + PEEKS:
                for oc, v, w, f in self.run(e["scrut"], writes, facts):
                    if oc != "norm":
                        yield oc, v, w, f
                        continue
                    for arm in e["arms"]:
                        tag = self.pat_tag(arm["pat"])
                        w2, f2 = w, f
                        if tag and tag[0] == "Some":
                            d = self.draw_of(e["scrut"], arm["pat"])
                            if d:
                                w2 = w + (d,)
                        elif tag and tag[0] == "None":
                            f2 = dict(f)
                            f2[self.root(call_args(scr)[0])] = "E"
                        yield from self.run(arm["body"], w2, f2)
                return
        if k == "ret" and e.get("e") is not None and peel(e["e"])["k"] == "call" and cpath(peel(e["e"])) == OK:
            yield "ret", "Ok", writes, facts
            return
        yield from super().run(e, writes, facts)

    def explore(self):
        val = self.body["value"]
        for oc, v, w, f in self.run(val, (), {}):
            if oc == "ret" and v == "None":
                self.finished.append(("error-exit", w, f))
            else:
                self.finished.append(("ok-exit", w, f))


def traversal_rules(rw, ro, rx, crate, fid, discipline):
    b = crate.body(fid)
    short = fid.rsplit("::", 1)[-1]
    if b is None:
        rw.violate(short, "function missing")
        return
    loc = crate.loc(b["value"].get("sp"))
    wk = Walk(crate, b)
    try:
        wk.explore()
    except RuntimeError as ex:
        rw.violate(short, "cannot enumerate the paths of the traversal: %s" % ex, loc)
        return
    tm = Terms(crate, b)
    paths = wk.finished
    walk_bad, order_bad, exit_bad = [], [], []
    n_draw = n_f = n_t = 0
    seeds = set()
    for how, ev, f in paths:
        drawn = {}
        for i, x in enumerate(ev):
            if x[0] == "DRAW":
                drawn[x[1]] = i
        for i, x in enumerate(ev):
            if x[0] == "SEED":
                seeds.add((x[1], x[2]))
                if x[3]:
                    walk_bad.append("the root token reaches the work list through %s" % ", ".join(x[3]))
            if x[0] == "F":
                n_f += 1
                if x[1] not in drawn or drawn[x[1]] > i:
                    walk_bad.append("the callback is called with something that was not just drawn from the work list")
            if x[0] == "REQUEUE":
                walk_bad.append("a token is put back on a work list (%s)" % x[2])
            if x[0] == "T" and x[1] not in drawn:
                walk_bad.append("children of a token that was not drawn on this path are queued")
            if x[0] == "SWAP" and not x[3]:
                order_bad.append("work lists are swapped where neither is known to be empty (levels mix)")
            if x[0] == "POPTOP" and not x[2]:
                order_bad.append("the top queue is popped where it is not known to be empty (its tokens are lost)")
        for xv, at in drawn.items():
            n_draw += 1
            d = ev[at]
            later = ev[at + 1:]
            fs = [j for j, y in enumerate(later) if y[0] == "F" and y[1] == xv]
            ts = [j for j, y in enumerate(later) if y[0] == "T" and y[1] == xv]
            if len(fs) != 1:
                walk_bad.append("a drawn token is handed to the callback %d times on a path (%s)" % (len(fs), how))
            if how == "error-exit" and fs and not ts:
                pass      # the callback failed: the traversal stops
            elif not ts and f.get("ce:" + str(xv)):
                pass      # no children to queue (tested with is_empty)
            elif len(ts) != 1:
                walk_bad.append("the children of a drawn token are queued %d times on a path (%s)" % (len(ts), how))
            if fs and ts and ts[0] < fs[0]:
                order_bad.append("children are queued before the callback sees the token")
            n_t += len(ts)
            # discipline
            if d[2] != "pop_front":
                order_bad.append("tokens are drawn with `%s`, not from the front" % d[2])
            src = d[3]
            for j in ts:
                t = later[j]
                if t[4]:
                    order_bad.append("children pass through %s on their way to the work list" % ", ".join(t[4]))
                if discipline == "level":
                    if t[2] not in ("extend", "append") or wk.kind.get(t[3]) != "Q":
                        order_bad.append("children are added with `%s` to a %s, expected a back-append to a queue" % (t[2], wk.kind.get(t[3]) or "non-work-list"))
                else:
                    if t[2] != "push" or wk.kind.get(t[3]) != "S":
                        order_bad.append("children are added with `%s`, expected to be pushed as the new top of the stack of queues" % t[2])
            if discipline == "level":
                if wk.kind.get(src) != "Q":
                    order_bad.append("tokens are not drawn from a queue of tokens")
            else:
                al = wk.alias.get(src)
                if not al or al[0] != "top" or wk.kind.get(al[1]) != "S":
                    order_bad.append("tokens are not drawn from the queue on top of the stack (%s)" % (al[0] if al else "no `last_mut` alias"))
                for j in fs:
                    dep = later[j][2]
                    got = tm.t(dep) if dep is not None else None
                    if not depth_is_len_minus_1(dep, al[1] if al else None, {v: x for v, x in wk.lets.items() if v not in wk.assigned}):
                        order_bad.append("the depth handed to the callback is `%s`, expected `stack.len() - 1`" % (fmt_term(got) if got else "?"))
        if how == "ok-exit":
            notempty = sorted(v for v in wk.kind if f.get(v) != "E" and not (discipline == "pre" and wk.kind[v] == "Q"))
            if notempty:
                exit_bad.append("returns Ok on a path where %d work list(s) are not known to be empty" % len(notempty))
    if len(seeds) != 1:
        walk_bad.append("the work list is seeded with `p.as_token()` at %d places, expected 1" % len(seeds))
    if n_draw == 0:
        walk_bad.append("no draw from a work list found: not a work-list traversal this rule knows")
    if not any(how == "ok-exit" for how, _, _ in paths):
        exit_bad.append("no path returns Ok")
    det = {"paths": len(paths), "draws": n_draw, "callback_calls": n_f, "children_transfers": n_t,
           "work_lists": {str(k): v for k, v in sorted(wk.kind.items())}}
    for r, bad in ((rw, walk_bad), (ro, order_bad), (rx, exit_bad)):
        if bad:
            r.violate(short, "; ".join(sorted(set(bad))), loc)
        else:
            r.inst(short, loc, "ok", det)


def depth_is_len_minus_1(e, stack_var, lets=None):
    if e is None or stack_var is None:
        return False
    e = peel(e)
    if e["k"] == "local" and lets and e["var"] in lets:
        e = peel(lets[e["var"]])
    if e["k"] != "binary" or e.get("op") != "-":
        return False
    l, r = peel(e["l"]), peel(e["r"])
    if not (r["k"] == "lit" and (r.get("v") or {}).get("int") == "1"):
        return False
    if l["k"] not in ("call", "mcall") or cpath(l) != "alloc::vec::Vec::len":
        return False
    x = peel(call_args(l)[0])
    return x["k"] == "local" and x["var"] == stack_var


# ---------------------------------------------------------------- R15-RENDER

class Render(prims.Paths):
    """Paths through the rendering closure; events are write_fmt calls, facts record `children.is_empty()`."""

    def __init__(self, crate, body, tokvar, depthvar, lets):
        super().__init__(crate, body, set())
        self.tok, self.depth = tokvar, depthvar
        self.lets.update(lets)

    def write_of(self, n):
        if n["k"] in ("call", "mcall") and cpath(n) in ("core::fmt::Write::write_fmt", "core::fmt::Write::write_str", "core::fmt::Write::write_char"):
            return ("W", n)
        return None

    def cond_facts(self, cond, facts, positive):
        f = super().cond_facts(cond, facts, positive)
        c = peel(cond)
        neg = False
        while c["k"] == "unary" and c.get("op") == "!":
            neg = not neg
            c = peel(c["e"])
        if c["k"] in ("call", "mcall") and cpath(c) in IS_EMPTY:
            x = peel(call_args(c)[0])
            if x["k"] == "field" and str(x["name"]) == "children" and peel(x["base"]).get("var") == self.tok:
                f["leaf"] = (positive != neg)
        return f


def pieces_of_write(rd, tm, n):
    """A write call as a list of pieces: literal text or (fmt trait, term)."""
    p = cpath(n)
    a = call_args(n)
    if p.endswith("write_str"):
        t = tm.t(a[1])
        return [t[2]] if t[0] == "lit" and t[1] == "str" else None
    if p.endswith("write_char"):
        t = tm.t(a[1])
        return [t[2]] if t[0] == "lit" and t[1] == "char" else None
    if not p.endswith("write_fmt"):
        return None
    from .. import fmtargs
    ps = fmtargs.pieces(a[1])
    if ps is None:
        return None
    return [x if isinstance(x, str) else (x[0], tm.t(x[1])) for x in ps]


def render_rule(r, crate):
    fid = IT + "write_tree_to"
    b = crate.body(fid)
    if b is None:
        r.violate("write_tree_to", "function missing")
        return
    loc = crate.loc(b["value"].get("sp"))
    calls = [n for n in walk(b["value"]) if n["k"] in ("call", "mcall") and cpath(n) in (IT + "iterate_pre_order", IT + "PairTree::iterate_pre_order")]
    pv = b["params"][0]["var"]
    if len(calls) != 1 or peel(call_args(calls[0])[0]).get("var") != pv:
        r.violate("write_tree_to", "does not render through one call of iterate_pre_order(p, ..)", loc)
        return
    cl = closure_of(call_args(calls[0])[1])
    if cl is None or len(cl.get("params") or []) != 2 or any(p.get("k") != "bind" for p in cl["params"]):
        r.violate("write_tree_to", "the rendering callback is not a closure |token, depth|", loc)
        return
    tok, depth = cl["params"][0]["var"], cl["params"][1]["var"]
    cb = cl["body"] if "value" in cl["body"] else {"value": cl["body"], "params": []}
    cb = {"value": cb["value"], "params": cl["params"]}
    tm = Terms(crate, cb)
    tm.names = {tok: "token", depth: "depth"}
    rd = Render(crate, cb, tok, depth, {})
    TOK = ("param", "token")
    indent = ("Display", ("call", "alloc::str::<impl str>::repeat", ("lit", "str", "    "), ("param", "depth")))
    rule = ("Debug", ("field", "rule", TOK))
    text = ("Debug", ("call", "pest_typed::span::Span::as_str", ("field", "span", TOK)))
    want = {True: [indent, rule, " ", text, "\n"], False: [indent, rule, "\n"]}
    bad = []
    seen = set()
    npaths = 0
    for oc, v, w, f in rd.run(cb["value"], (), {}):
        if oc == "ret" and v == "None":
            continue        # a failed write: the error is passed on
        npaths += 1
        pieces = []
        for ev in w:
            ps = pieces_of_write(rd, tm, ev[1])
            if ps is None:
                bad.append("a write whose template this rule cannot decode")
                pieces = None
                break
            buf = peel(call_args(ev[1])[0])
            pieces += ps
        if pieces is None:
            continue
        # join adjacent literal pieces
        norm = []
        for p in pieces:
            p = (p[0].capitalize(), p[1]) if isinstance(p, tuple) else p
            if isinstance(p, str) and norm and isinstance(norm[-1], str):
                norm[-1] += p
            elif p != "":
                norm.append(p)
        leaf = f.get("leaf")
        if leaf is None:
            bad.append("a path renders a token without having tested `children.is_empty()`")
            continue
        seen.add(leaf)
        if norm != want[leaf]:
            bad.append("%s is rendered as %s, expected %s" % ("a leaf" if leaf else "a token with children", show_pieces(norm), show_pieces(want[leaf])))
    if seen != {True, False} and not bad:
        bad.append("leaf and non-leaf tokens are not both rendered")
    if bad:
        r.violate("write_tree_to", "; ".join(sorted(set(bad))), loc)
    else:
        r.inst("write_tree_to", loc, "ok", {"paths": npaths, "leaf": show_pieces(want[True]), "inner": show_pieces(want[False])})


def show_pieces(ps):
    return " ".join(repr(p) if isinstance(p, str) else "{%s:%s}" % (fmt_term(p[1]), "?" if p[0] == "Debug" else "") for p in ps)


# ---------------------------------------------------------------- R15-DELEG

def deleg_rule(r, crate):
    for m in ("iterate_level_order", "iterate_pre_order", "write_tree_to"):
        fid = IT + "PairTree::" + m
        b = crate.body(fid)
        if b is None:
            r.violate(m, "method missing")
            continue
        loc = crate.loc(b["value"].get("sp"))
        tm = Terms(crate, b)
        t = tm.t(b["value"])
        second = b["params"][1].get("name") if len(b["params"]) > 1 else None
        want = ("call", IT + m, ("param", "self"), ("param", second))
        (r.inst(m, loc, "ok") if t == want else r.violate(m, "is %s, expected %s(self, %s)" % (fmt_term(t), m, second), loc))
    fid = IT + "PairTree::format_as_tree"
    b = crate.body(fid)
    if b is None:
        r.violate("format_as_tree", "method missing")
        return
    loc = crate.loc(b["value"].get("sp"))
    val = b["value"]
    tail = peel(val["tail"]) if val["k"] == "block" and "tail" in val else peel(val)
    bad = []
    buf = None
    if tail["k"] == "call" and cpath(tail) == OK and peel(tail["args"][0])["k"] == "local":
        buf = peel(tail["args"][0])["var"]
    else:
        bad.append("does not return Ok(<the buffer>)")
    if buf is not None:
        tm = Terms(crate, b)
        init = tm.lets.get(buf)
        if init is None or tm.t(init)[:2] != ("call", "alloc::string::String::new"):
            bad.append("the buffer does not start as String::new()")
        uses = []
        for n in walk(val):
            if n["k"] in ("call", "mcall") and cpath(n) and n is not tail:
                if any(peel(x)["k"] == "local" and peel(x)["var"] == buf for x in call_args(n)):
                    uses.append(n)
        if len(uses) != 1 or cpath(uses[0]) not in (IT + "PairTree::write_tree_to", IT + "write_tree_to") or \
                Terms(crate, b).t(call_args(uses[0])[0]) != ("param", "self"):
            bad.append("the buffer is not written by exactly one write_tree_to(self, &mut buf) (%s)" % [cpath(u).rsplit("::", 1)[-1] for u in uses])
        else:
            # the write must be checked with `?` (an error is not swallowed)
            tried = any(n["k"] == "match" and n.get("src") == "try" and any(m is uses[0] for m in walk(n["scrut"])) for n in walk(val))
            if not tried:
                bad.append("the result of write_tree_to is not propagated with `?`")
    (r.violate("format_as_tree", "; ".join(bad), loc) if bad else r.inst("format_as_tree", loc, "ok"))


def run(ctx):
    from . import c02
    ctx.adopt(c02.run, {"R02-FWD": "R15-FWD", "R02-RULE": "R15-RULE", "R02-LOOKAHEAD": "R15-LOOKAHEAD", "R02-STORE": "R15-STORE", "R02-KIND": "R15-KIND", "R02-TWIN": "R15-TWIN"})
    fs = facts.load("core")
    crate = fs["pest_typed"]
    ctx.analysed = {"crates": ["pest_typed", "fx_macros"], "functions": [IT + x for x in (
        "iterate_level_order", "iterate_pre_order", "write_tree_to", "Pair::children", "Pair::as_token", "Pair::as_thin_token",
        "Pairs::self_or_children", "Token::to_thin", "PairTree::*")]}
    rt = ctx.rule("R15-TOKEN", "children / self_or_children collect what the forwarding callback is given, in call order; as_token, to_thin and "
                               "as_thin_token copy rule, span / offsets and children (order-preserving)")
    token_rules(rt, crate)
    rt.require(5, "token helpers")
    rw = ctx.rule("R15-WALK", "work-list traversals: a drawn token is handed to the callback exactly once and its children are queued exactly "
                              "once on every path; only drawn tokens reach the callback; the work list is seeded once with p.as_token()")
    ro = ctx.rule("R15-ORDER", "level-order draws from the front and appends children at the back of a queue, swapping queues only when one is "
                               "empty; pre-order draws from the front of the top queue, pushes children as the new top, pops an empty top only, "
                               "and hands `stack.len() - 1` to the callback before pushing")
    rx = ctx.rule("R15-EXIT", "a traversal returns Ok only where every work list is known to be empty")
    traversal_rules(rw, ro, rx, crate, IT + "iterate_level_order", "level")
    traversal_rules(rw, ro, rx, crate, IT + "iterate_pre_order", "pre")
    for r in (rw, ro, rx):
        r.require(2, "traversals")
    rl = ctx.rule("R15-LOOPS", "every path round a traversal loop changes the work lists its exit tests read (R11-LOOPS's rule on these loops)")
    from .. import loops
    for m in ("iterate_level_order", "iterate_pre_order"):
        b = crate.body(IT + m)
        if b is None:
            continue
        for x in loops.analyse(crate, IT + m, b):
            if x["kind"] in ("while-ok", "for-finite"):
                rl.inst(x["key"], x["loc"], "ok: " + x["kind"], x["detail"])
            else:
                rl.violate(x["key"], "loop is `%s`: a path round it changes nothing its exit tests read, or it has no recognisable exit" % x["kind"], x["loc"])
    rl.require(2, "loops")
    rr = ctx.rule("R15-RENDER", "write_tree_to renders the pre-order: four spaces per level, the rule, and on leaves (children.is_empty()) the "
                                "matched text, one line per token")
    render_rule(rr, crate)
    rr.require(1, "renderers")
    rd = ctx.rule("R15-DELEG", "PairTree methods call the traversal of the same name with (self, f); format_as_tree returns the string "
                               "write_tree_to wrote")
    deleg_rule(rd, crate)
    rd.require(4, "methods")
    ctx.assume("spans nested in their parent and ordered among siblings, and equality with pest's pair tree, are not decided")
    ctx.assume("termination of the two traversal loops is R11-LOOPS's (C11)")
    ctx.explanation = ("The traversal helpers are small work-list programs. Their typed HIR is walked path by path with a work-list event "
                       "alphabet (draw, callback, children transfer, swap, pop) and emptiness facts; token construction and rendering are "
                       "compared as resolved terms; the format template is decoded from the format_args! lowering. C02's forwarding "
                       "instances give the children themselves.")
