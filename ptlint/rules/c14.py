"""C14 — Display of Span / Position never panics (inventory + discharge table), control pictures, must-show rule."""
import re

from .. import facts, inv
from ..hir import walk, strip_generics

LINE_FNS = [
    "span::Span::<'i>::lines",
    "span::Span::<'i>::lines_span",
    "span::Span::<'i>::as_str",
    "<{K}::span::LinesSpan<'i> as core::iter::traits::iterator::Iterator>::next",
    "<{K}::span::Lines<'i> as core::iter::traits::iterator::Iterator>::next",
    "position::Position::<'i>::find_line_start",
    "position::Position::<'i>::find_line_end",
    "position::Position::<'i>::line_of",
]
REACH_FLOOR = 20  # 30 on the pinned tree
ENTRIES = ["<pest_typed::span::Span<'i> as core::fmt::Display>::fmt",
           "<pest_typed::position::Position<'i> as core::fmt::Display>::fmt",
           "pest_typed::span::Span::<'i>::display", "pest_typed::position::Position::<'i>::display"]
SNIPPET_PREFIX = "pest_typed::formatter::FormatOption::display_snippet"


def always_calls(e, pred):
    """Does every normally-completing path through e call a function satisfying pred? (`?` error exits ignored)"""
    k = e["k"]
    if k in ("call", "mcall"):
        c = e.get("callee")
        if c and pred(strip_generics(c["path"])):
            return True
        subs = ([e["recv"]] if k == "mcall" else [e["f"]]) + e["args"]
        return any(always_calls(s, pred) for s in subs)
    if k == "block":
        for st in e.get("stmts", []):
            if st["k"] == "let" and "init" in st and always_calls(st["init"], pred):
                return True
            if st["k"] == "expr" and always_calls(st["e"], pred):
                return True
        return "tail" in e and always_calls(e["tail"], pred)
    if k == "if":
        if always_calls(e["cond"], pred):
            return True
        return "else" in e and always_calls(e["then"], pred) and always_calls(e["else"], pred)
    if k == "match":
        if e.get("src") == "try":
            return always_calls(e["scrut"], pred)
        if always_calls(e["scrut"], pred):
            return True
        if e.get("src") == "for":
            return False
        return all(always_calls(a["body"], pred) for a in e["arms"])
    if k == "loop":
        return False   # a loop may run zero times / leave before the call
    for key in ("e", "l", "r", "base", "init"):
        if isinstance(e.get(key), dict) and "k" in e[key] and always_calls(e[key], pred):
            return True
    return False


def _subst_s(t, name):
    """rename the placeholder ('param', 's') to the constructor's actual string parameter"""
    if t == ("param", "s"):
        return ("param", name)
    if isinstance(t, tuple):
        return tuple(_subst_s(x, name) for x in t)
    return t


def run(ctx):
    fs = facts.load("core")
    c = fs["pest_typed"]
    g = inv.CallGraph([c])
    ctx.analysed = {"crate": "pest_typed", "entries": ENTRIES}
    table = inv.load_table("discharge_c14.json")
    rp = ctx.rule("R14-PANIC", "every panic-capable site (unwrap/expect/panic!/index/split_at) reachable from Display/display of Span and "
                               "Position is discharged by a reviewed reason")
    ru = ctx.rule("R14-USUB", "every raw usize subtraction reachable from there is discharged by a reviewed reason")
    missing = [e for e in ENTRIES if e not in g.bodies]
    for e in missing:
        rp.violate(e, "entry point no longer exists (anchor lost)")
    reach = g.reachable(ENTRIES)
    used = set()
    for fid in sorted(reach):
        ss = inv.keyed(list(inv.sites(c, fid, g.bodies[fid], {"panic", "usub", "div"})), fid)
        for s in ss:
            rule = ru if s["kind"] in ("usub", "div") else rp
            if s["key"] in table:
                used.add(s["key"])
                rule.inst(s["key"], s["loc"], "discharged", table[s["key"]])
            else:
                path = g.path_to(ENTRIES, fid) or [fid]
                rule.violate(s["key"], "undischarged %s site reachable from Display (%s)" % (s["kind"], " -> ".join(p.rsplit("::", 1)[-1] for p in path)), s["loc"])
    stale = [k for k in table if k not in used]
    if stale:
        rp.note("stale discharge entries (site gone; not an error): %s" % stale)
    rp.note("%d functions reachable from the 4 entry points" % len(reach))
    if len(reach) < REACH_FLOOR:
        rp.violate("<reach>", "only %d functions reachable from the Display entry points: call graph lost its anchors" % len(reach))
    # site floors are about half of today's counts (12 / 6): removing a panic-capable site is not a violation
    rp.require(6, "panic-capable sites")
    ru.require(3, "subtraction sites")

    # control pictures
    rc = ctx.rule("R14-PICT", "visualize_ws_and_cntrl maps U+0000..U+001F to U+2400+code and U+007F to U+2421")
    b = c.body("pest_typed::formatter::visualize_ws_and_cntrl")
    if b is None:
        rc.violate("visualize_ws_and_cntrl", "function missing")
    else:
        pairs = {}
        for n in walk(b["value"]):
            if n["k"] == "match":
                for arm in n["arms"]:
                    pats = arm["pat"]["ps"] if arm["pat"]["k"] == "or" else [arm["pat"]]
                    body = arm["body"]
                    out = None
                    for m in walk(body):
                        if m["k"] == "lit" and m["v"] and ("char" in m["v"] or "str" in m["v"]):
                            out = m["v"].get("char", m["v"].get("str"))
                    for p in pats:
                        if p["k"] == "expr" and p.get("lit") and "char" in p["lit"]:
                            pairs[p["lit"]["char"]] = out
        want = {chr(i): chr(0x2400 + i) for i in range(0x20)}
        want[chr(0x7f)] = chr(0x2421)
        n_ok = 0
        for k_, v in want.items():
            if pairs.get(k_) == v:
                n_ok += 1
                rc.inst("U+%04X" % ord(k_), c.loc(b["value"].get("sp")), "ok", nontrivial=True)
            elif k_ in pairs:
                rc.violate("U+%04X" % ord(k_), "shown as %r, its control picture is %r" % (pairs[k_], v), c.loc(b["value"].get("sp")))
            else:
                rc.violate("U+%04X" % ord(k_), "control character has no picture in the match", c.loc(b["value"].get("sp")))
        # every path of the function goes through that table: no early return, no branch around the mapping
        def outside_closures(e):
            yield e
            if e["k"] == "closure":
                return
            from ..hir import children
            for ch in children(e):
                for x in outside_closures(ch):
                    yield x
        bypass = [n for n in outside_closures(b["value"]) if n["k"] in ("ret", "if", "match") and n is not b["value"]]
        bypass = [n for n in bypass if not (n["k"] == "match" and n.get("src") in ("for", "try"))]
        if bypass:
            rc.violate("every path maps", "visualize_ws_and_cntrl has a branch / early return outside the per-character mapping: some text can be "
                       "returned without its control characters replaced", c.loc(bypass[0].get("sp")))
        else:
            rc.inst("every path maps", c.loc(b["value"].get("sp")), "ok: the body is the mapping chain, no branch or return around it")
        rc.require(34, "table entries + path rule")

    # every piece of line text that is displayed went through the picture function
    ru_ = ctx.rule("R14-PICTUSE", "every piece of source text handed to the snippet writers is a result of visualize_ws_and_cntrl: the text fields "
                   "of Partition / Partition2, and the inner lines of a multi-line span")
    VIS = "pest_typed::formatter::visualize_ws_and_cntrl"

    def is_vis(e, lets):
        while True:
            while e["k"] in ("addr_of", "use", "cast") or (e["k"] == "block" and not e.get("stmts") and "tail" in e):
                e = e["tail"] if e["k"] == "block" else e["e"]
            if e["k"] == "local" and e.get("var") in lets:
                e = lets[e["var"]]
                continue
            break
        return e["k"] == "call" and e.get("callee") and strip_generics(e["callee"]["path"]) == VIS
    for ctor, fields in (("pest_typed::formatter::Partition::<'i>::new", ("former", "latter")),
                         ("pest_typed::formatter::Partition2::<'i>::new", ("former", "middle", "latter"))):
        pb = c.body(ctor)
        if pb is None:
            ru_.violate(ctor.rsplit("::", 2)[-2], "constructor missing (anchor lost): %s" % ctor)
            continue
        lets = {}
        for n in walk(pb["value"]):
            if n["k"] == "block":
                for st in n.get("stmts", []):
                    if st["k"] == "let" and "init" in st and st["pat"].get("k") == "bind":
                        lets[st["pat"]["var"]] = st["init"]
        sts = [n for n in walk(pb["value"]) if n["k"] == "struct"]
        for fname in fields:
            key = "%s.%s" % (ctor.split("::")[2].split("<")[0], fname)
            fe = next((f["e"] for sn in sts for f in sn["fields"] if f["name"] == fname), None)
            if fe is not None and is_vis(fe, lets):
                ru_.inst(key, c.loc(pb["value"].get("sp")))
            else:
                ru_.violate(key, "the displayed text field `%s` is not a result of visualize_ws_and_cntrl" % fname, c.loc(pb["value"].get("sp")))
    dsb = g.bodies.get("pest_typed::formatter::FormatOption::<SF, MF, NF>::display_span")
    if dsb is not None:
        # `lines[..]` (inner lines of the collected Vec<&str>) may only be read as the argument of the picture function
        parents = {}
        for n in walk(dsb["value"]):
            from ..hir import children
            for ch in children(n):
                parents[id(ch)] = n
        n_inner = 0
        for n in walk(dsb["value"]):
            if n["k"] == "index" and "alloc::vec::Vec<&" in c.tys(n["base"].get("ty")).replace("&'_ ", "&") + "":
                par = parents.get(id(n))
                while par is not None and par["k"] in ("addr_of", "use", "unary"):
                    par = parents.get(id(par))
                n_inner += 1
                if par is not None and par["k"] == "call" and par.get("callee") and strip_generics(par["callee"]["path"]) == VIS:
                    ru_.inst("display_span: inner line #%d" % n_inner, c.loc(n.get("sp")))
                else:
                    ru_.violate("display_span: inner line #%d" % n_inner, "an inner line is used without visualize_ws_and_cntrl", c.loc(n.get("sp")))
    ru_.require(8, "text sources")

    # one width measure: marker columns (padding before the markers) and marker lengths are display widths of pieces of the same
    # line — they only line up if every one of them is measured the same way (seed C14-7: `width` for one padding, `width_cjk`
    # for the markers: off by one cell per East-Asian-ambiguous character before the span)
    rw = ctx.rule("R14-WIDTH", "every display-width measurement in the snippet writers uses one and the same width function")
    used = {}
    for fid, b in g.bodies.items():
        if not fid.startswith("pest_typed::formatter::"):
            continue
        for n in walk(b["value"]):
            cal = n.get("callee")
            if cal and "unicode_width::UnicodeWidth" in cal["path"]:
                used.setdefault(strip_generics(cal["path"]).rsplit("::", 2)[-2] + "::" + strip_generics(cal["path"]).rsplit("::", 1)[-1], []).append((fid, c.loc(n.get("sp"))))
    if len(used) == 1:
        for fn, sites_ in used.items():
            for i, (fid, loc) in enumerate(sorted(sites_)):
                rw.inst("%s #%d: %s" % (fid.rsplit("::", 1)[-1], i + 1, fn), loc)
    else:
        major = max(used, key=lambda k: len(used[k])) if used else None
        for fn, sites_ in sorted(used.items()):
            for fid, loc in sites_:
                if fn != major:
                    rw.violate("%s: %s" % (fid.rsplit("::", 1)[-1], fn), "measures a width with %s where the other %d measurements use %s: marker columns and "
                               "marker lengths no longer line up for characters the two functions disagree on" % (fn, len(used[major]), major), loc)
                else:
                    rw.inst("%s: %s" % (fid.rsplit("::", 1)[-1], fn), loc)
    rw.require(2, "width measurements")      # 5 today; a padding helper shared by the writers lowers the count
    # which piece is measured: padding = the text before the marked part (`former`), marker length = the marked part (`middle`)
    rmc = ctx.rule("R14-MARKCOL", "in the snippet writers the padding before a marker is the width of the line's `former` part and a marker "
                                  "run is as wide as its `middle` part")
    for fid, b in sorted(g.bodies.items()):
        if not fid.startswith("pest_typed::formatter::"):
            continue
        for n in walk(b["value"]):
            if n["k"] == "mcall" and n.get("name") == "repeat" and n["recv"]["k"] == "lit" and "str" in (n["recv"].get("v") or {}):
                lit = n["recv"]["v"]["str"]
                ws = [m for m in walk(n["args"][0]) if m.get("callee") and "unicode_width::UnicodeWidth" in m["callee"]["path"]]
                if not ws:
                    # a run of blanks / markers sized from a piece of the line without measuring its display width (seed C14-8:
                    # `" ".repeat(line.former.chars().count())`)
                    pieces_ = [x["name"] for x in walk(n["args"][0]) if x["k"] == "field" and x["name"] in ("former", "middle", "latter")]
                    if pieces_:
                        rmc.violate("%s: %r.repeat(..)" % (fid.rsplit("::", 1)[-1], lit), "is sized from `%s` without the display-width function: "
                                    "columns are display cells, not characters or bytes" % pieces_[0], c.loc(n.get("sp")))
                    continue
                fields = [x["name"] for x in walk(ws[0]) if x["k"] == "field" and x["name"] in ("former", "middle", "latter")]
                want = "former" if lit.strip() == "" else "middle"
                key = "%s: %r.repeat(width(..))" % (fid.rsplit("::", 1)[-1], lit)
                params = {p_["var"]: i for i, p_ in enumerate(b.get("params", [])) if p_.get("k") == "bind"}
                plocals = [x["var"] for x in walk(ws[0]) if x["k"] == "local" and x["var"] in params]
                if not fields and len(plocals) == 1:
                    # a shared helper (`fn padding_for(shown: &str)`): what is measured is decided at its call sites
                    idx = params[plocals[0]]
                    sites_ = []
                    for fid2, b2 in g.bodies.items():
                        for m2 in walk(b2["value"]):
                            if m2["k"] in ("call", "mcall") and m2.get("callee") and strip_generics(m2["callee"]["path"]) == strip_generics(fid):
                                a2 = ([m2["recv"]] if m2["k"] == "mcall" else []) + m2["args"]
                                if idx < len(a2):
                                    sites_.append((fid2, m2, [x["name"] for x in walk(a2[idx]) if x["k"] == "field" and x["name"] in ("former", "middle", "latter")]))
                    if not sites_:
                        rmc.violate(key, "helper measuring its parameter is never called", c.loc(n.get("sp")))
                    for fid2, m2, fl2 in sites_:
                        k2 = "%s via %s: %r.repeat(width(..))" % (fid2.rsplit("::", 1)[-1], fid.rsplit("::", 1)[-1], lit)
                        if fl2 == [want]:
                            rmc.inst(k2, c.loc(m2.get("sp")), "ok", {"measures": want})
                        else:
                            rmc.violate(k2, "measures %s, expected the `%s` part of the line" % (fl2 or "something else", want), c.loc(m2.get("sp")))
                    continue
                if fields == [want]:
                    rmc.inst(key, c.loc(n.get("sp")), "ok", {"measures": want})
                else:
                    rmc.violate(key, "measures %s, expected the `%s` part of the line" % (fields or "something else", want), c.loc(n.get("sp")))
    rmc.require(3, "repeat sites")        # 5 today

    # which piece is which: `former` is what precedes the marked column(s), `middle` the marked part, `latter` the rest
    rsp_ = ctx.rule("R14-SPLIT", "Partition / Partition2 cut the line at the given column(s): former = text before the (first) column, middle = "
                                 "text between the columns, latter = text from the (last) column on")

    def split_terms(b):
        """field name -> symbolic origin, from the `let (a, b) = x.split_at(k)` chain of a constructor"""
        env = {}
        for p_ in b.get("params", []):
            if p_.get("k") == "bind":
                env[p_["var"]] = ("param", p_.get("name"))

        def val(e):
            while e["k"] in ("addr_of", "use", "cast") or (e["k"] == "unary" and e.get("op") == "*"):
                e = e["e"]
            if e["k"] == "local":
                return env.get(e["var"], ("?", e.get("name")))
            if e["k"] in ("call", "mcall") and e.get("callee"):
                pth = strip_generics(e["callee"]["path"])
                a = ([e["recv"]] if e["k"] == "mcall" else []) + e["args"]
                if pth.endswith("str>::split_at") and len(a) == 2:
                    return ("split", val(a[0]), val(a[1]))
                if pth == VIS and len(a) == 1:
                    return val(a[0])
                if pth.rsplit("::", 1)[-1] in ("as_str", "as_ref", "deref", "borrow", "to_owned", "to_string", "into") and len(a) == 1:
                    return val(a[0])
            return ("?", e["k"])
        body = b["value"]
        for st in body.get("stmts", []):
            if st["k"] == "let" and "init" in st:
                v = val(st["init"])
                pat = st["pat"]
                if pat["k"] == "tuple":
                    for i, q in enumerate(pat["ps"]):
                        if q["k"] == "bind":
                            env[q["var"]] = ("part", i, v)
                elif pat["k"] == "bind":
                    env[pat["var"]] = v
        lit = [n for n in walk(body) if n["k"] == "struct"]
        return {f["name"]: val(f["e"]) for f in lit[0]["fields"]} if lit else {}

    S0 = ("param", "s")
    for ty, want in (("Partition", lambda ps: {"former": ("part", 0, ("split", S0, ("param", ps[2]))), "latter": ("part", 1, ("split", S0, ("param", ps[2])))}),
                     ("Partition2", lambda ps: {"former": ("part", 0, ("split", ("part", 0, ("split", S0, ("param", ps[3]))), ("param", ps[2]))),
                                                "middle": ("part", 1, ("split", ("part", 0, ("split", S0, ("param", ps[3]))), ("param", ps[2]))),
                                                "latter": ("part", 1, ("split", S0, ("param", ps[3])))})):
        fid = next((f for f in g.bodies if strip_generics(f) == "pest_typed::formatter::%s::new" % ty), None)
        if fid is None:
            rsp_.violate(ty + "::new", "constructor missing (anchor lost)")
            continue
        b = g.bodies[fid]
        ps = [p_.get("name") for p_ in b.get("params", [])]
        got = split_terms(b)
        w = want(ps)
        w = {k_: _subst_s(v_, ps[1]) for k_, v_ in w.items()}
        bad = [k_ for k_ in w if got.get(k_) != w[k_]]
        if bad:
            rsp_.violate(ty + "::new", "field(s) %s do not hold the piece of the line their name says" % bad, c.loc(b["value"].get("sp")))
        else:
            rsp_.inst(ty + "::new", c.loc(b["value"].get("sp")), "ok", {"fields": sorted(w)})
    rsp_.require(2, "constructors")

    # 1-based numbers: a displayed number is (0-based index of the line shown in that row) + 1
    rnum = ctx.rule("R14-NUMBER", "every line number the snippet writers print is the 0-based index of the line in that row plus one: `X.line + 1` "
                                  "for the row of partition X; rows between start and end of a long span: start.line + 2, start.line + 3, end.line")
    FO = "pest_typed::formatter::FormatOption::<SF, MF, NF>::"

    def num_of(e):
        """('name of the local', offset) for `<local>.line (+ k)`, ('=name', 0) for a plain local, else None"""
        while e["k"] in ("addr_of", "use", "cast"):
            e = e["e"]
        off = 0
        if e["k"] == "binary" and e.get("op") == "+" and e["r"]["k"] == "lit" and "int" in (e["r"].get("v") or {}):
            off = int(e["r"]["v"]["int"])
            e = e["l"]
        elif e["k"] == "binary" and e.get("op") == "-" and e["r"]["k"] == "lit" and "int" in (e["r"].get("v") or {}):
            off = -int(e["r"]["v"]["int"])
            e = e["l"]
        while e["k"] in ("addr_of", "use", "cast"):
            e = e["e"]
        if e["k"] == "field" and e["name"] == "line" and e["base"]["k"] == "local":
            return (e["base"].get("name"), off)
        if e["k"] == "local" and off == 0:
            return ("=" + str(e.get("name")), 0)
        return None

    def formatted_numbers(body):
        out = []
        for n in walk(body["value"]):
            if n["k"] == "call" and n.get("callee") and strip_generics(n["callee"]["path"]) == "alloc::fmt::format":
                tups = [m for m in walk(n) if m["k"] == "tuple" and m.get("mb") is not None]
                if tups and tups[0]["es"]:
                    out.append((num_of(tups[0]["es"][0]), c.loc(n.get("sp"))))
        return out

    # which parameters a function prints as a number (directly, or by handing them to a function that does): fixpoint
    fbodies = {fid: b for fid, b in g.bodies.items() if fid.startswith("pest_typed::formatter::")}
    numparams = {fid: set() for fid in fbodies}
    for _ in range(4):
        changed = False
        for fid, b in fbodies.items():
            pidx = {p_.get("name"): i for i, p_ in enumerate(b.get("params", [])) if p_.get("k") == "bind"}
            for x, _loc in formatted_numbers(b):
                if x and x[0].startswith("=") and x[0][1:] in pidx and pidx[x[0][1:]] not in numparams[fid]:
                    numparams[fid].add(pidx[x[0][1:]])
                    changed = True
            for n in walk(b["value"]):
                if n["k"] in ("call", "mcall") and n.get("callee"):
                    tgt = next((f for f in fbodies if strip_generics(f) == strip_generics(n["callee"]["path"])), None)
                    if tgt and numparams[tgt]:
                        a = ([n["recv"]] if n["k"] == "mcall" else []) + n["args"]
                        for i_ in numparams[tgt]:
                            if i_ < len(a):
                                x = num_of(a[i_])
                                if x and x[0].startswith("=") and x[0][1:] in pidx and pidx[x[0][1:]] not in numparams[fid]:
                                    numparams[fid].add(pidx[x[0][1:]])
                                    changed = True
        if not changed:
            break

    def numbers_of(fid):
        b = fbodies[fid]
        out = []
        for x, loc in formatted_numbers(b):
            if not (x and x[0].startswith("=")):
                out.append((x, loc))
        for n in walk(b["value"]):
            if n["k"] in ("call", "mcall") and n.get("callee"):
                tgt = next((f for f in fbodies if strip_generics(f) == strip_generics(n["callee"]["path"])), None)
                if tgt and numparams[tgt]:
                    a = ([n["recv"]] if n["k"] == "mcall" else []) + n["args"]
                    for i_ in sorted(numparams[tgt]):
                        if i_ < len(a):
                            x = num_of(a[i_])
                            if not (x and x[0].startswith("=")):
                                out.append((x, c.loc(n.get("sp"))))
        return out

    def pname(fid, i_):
        ps = fbodies[fid].get("params", [])
        return ps[i_].get("name") if i_ < len(ps) else "?"

    W = {"display_snippet_single_pos": lambda f: [(pname(f, 3), 1)],
         "display_snippet_single_line": lambda f: [(pname(f, 3), 1)],
         "display_snippet_multi_line": lambda f: [(pname(f, 3), 1), (pname(f, 3), 2), (pname(f, 3), 3), (pname(f, 4), 0), (pname(f, 4), 1)]}
    for fn, wantf in sorted(W.items()):
        fid = FO + fn
        if fid not in fbodies:
            rnum.violate(fn, "function missing (anchor lost)")
            continue
        got = numbers_of(fid)
        want = sorted(wantf(fid))
        gs = sorted((x for x, _ in got), key=str)
        if gs == sorted(want, key=str):
            for x, loc in got:
                rnum.inst("%s: %s.line + %d" % (fn, x[0], x[1]), loc)
        else:
            rnum.violate(fn, "prints the numbers %s, expected %s (partition.line + offset; rows between the first and the last line of a "
                             "long span are start + 2, start + 3 and end + 0)" % (gs, want), got[0][1] if got else None)
    rnum.require(7, "numbered rows")

    # must-show: every successful return of display_span / display_position has displayed a snippet
    rs = ctx.rule("R14-SHOW", "every normally-completing path of display_span / display_position passes through a display_snippet_* call")
    for nm in ("display_span", "display_position"):
        fid = "pest_typed::formatter::FormatOption::<SF, MF, NF>::" + nm
        b = g.bodies.get(fid)
        if b is None:
            rs.violate(nm, "function missing (anchor lost)")
            continue
        if always_calls(b["value"], lambda p: p.startswith(SNIPPET_PREFIX)):
            rs.inst(nm, c.loc(b["value"].get("sp")))
        else:
            rs.violate(nm, "a path returns Ok(()) without having displayed any snippet (the line search loop can end without a hit)",
                       c.loc(b["value"].get("sp")))
    rs.require(2, "functions")

    # line selection: which line is taken as the one holding an offset
    rsel = ctx.rule("R14-SELECT", "the line search takes the line with `pos + line.len() > o` for the offset o of a character (span start, position) and "
                    "`pos + line.len() >= end` for the exclusive end of a span: the lines holding the first and the last character")
    want_ops = {("display_span", "start"): ">", ("display_span", "end"): ">=", ("display_position", "pos"): ">"}
    seen_sel = set()
    for nm in ("display_span", "display_position"):
        fid = "pest_typed::formatter::FormatOption::<SF, MF, NF>::" + nm
        b = g.bodies.get(fid)
        if b is None:
            rsel.violate(nm, "function missing (anchor lost)")
            continue
        for n in walk(b["value"]):
            if n["k"] != "if" or n["cond"]["k"] != "binary" or n["cond"]["op"] not in (">", ">=", "<", "<="):
                continue
            cd = n["cond"]
            sides = [cd["l"], cd["r"]]
            meth = None
            for i_, sd in enumerate(sides):
                if sd["k"] == "mcall" and sd["name"] in ("start", "end", "pos") and not sd["args"]:
                    meth, other, flipped = sd["name"], sides[1 - i_], i_ == 0
            if meth is None or not (other["k"] == "binary" and other["op"] == "+"):
                continue
            op = cd["op"]
            if flipped:   # `o < pos + len` is `pos + len > o`
                op = {"<": ">", "<=": ">=", ">": "<", ">=": "<="}[op]
            key = "%s: %s line" % (nm, meth)
            seen_sel.add((nm, meth))
            want = want_ops.get((nm, meth))
            if want is None:
                continue
            if op == want:
                rsel.inst(key, c.loc(n.get("sp")), "ok", {"test": "pos + line.len() %s %s()" % (op, meth)})
            else:
                rsel.violate(key, "the search stops at the first line with pos + line.len() %s %s(); the line holding that character is the first with %s"
                             % (op, meth, want), c.loc(n.get("sp")))
    for k_ in want_ops:
        if k_ not in seen_sel:
            rsel.violate("%s: %s line" % k_, "line search comparison not found (anchor lost)")
    rsel.require(3, "line searches")
    # the search walks the lines: every pass through a `while let Some(..) = iter.peek()` search loop that goes round again has drawn
    # the line it looked at (`iter.next()`) and added its length to the running offset, once each
    from .. import loops as _loops, prims as _prims
    rstep = ctx.rule("R14-STEP", "every round of a peeking line-search loop draws the peeked line once and adds its length to the running offset once")

    class Step(_prims.Paths):
        def __init__(self, crate, body, itvar):
            super().__init__(crate, {"value": body, "params": []}, set())
            self.it = itvar

        def write_of(self, n):
            if n["k"] == "mcall" and n.get("name") == "next" and _loops.root_local(n["recv"]) == self.it:
                return ("next", n)
            if n["k"] == "assign_op" and n.get("op") in ("+=", "+") and n["l"]["k"] == "local":
                return ("acc", n)
            return None

    for nm in ("display_span", "display_position"):
        b = g.bodies.get("pest_typed::formatter::FormatOption::<SF, MF, NF>::" + nm)
        if b is None:
            continue
        k_ = 0
        for lp in walk(b["value"]):
            if lp["k"] != "loop":
                continue
            peeks = [m for m in walk(lp["body"]) if m["k"] == "mcall" and m.get("name") == "peek" and _loops.root_local(m["recv"]) is not None]
            if not peeks:
                continue
            k_ += 1
            itv = _loops.root_local(peeks[0]["recv"])
            key = "%s: search loop #%d" % (nm, k_)
            try:
                st = Step(c, lp["body"], itv)
                back = [w for oc, v, w, f in st.run(lp["body"], (), {}) if oc in ("norm", "continue")]
            except RuntimeError as ex:
                rstep.violate(key, "cannot enumerate the loop's paths: %s" % ex, c.loc(lp.get("sp")))
                continue
            bad = [w for w in back if [x[0] for x in w].count("next") != 1 or [x[0] for x in w].count("acc") != 1]
            if bad or not back:
                rstep.violate(key, "a path that goes round the search loop again has %s: the search would look at the same line twice or lose "
                              "track of the running offset" % (sorted(x[0] for x in bad[0]) if bad else "no back edge"), c.loc(lp.get("sp")))
            else:
                rstep.inst(key, c.loc(lp.get("sp")), "ok", {"back_edge_paths": len(back)})
    rstep.require(1, "search loops")       # 2 today; a search rewritten with iterator adaptors is not a loop any more

    # gutter: the width of the number column is computed from the largest line number that is printed
    rgt = ctx.rule("R14-GUTTER", "every display_snippet_* call in display_span / display_position gets the width ceil_log10(L + 1) where L is the "
                   "0-based line of the last line it prints (the first argument of the Partition built for it): numbered and unnumbered rows align")
    for nm in ("display_span", "display_position"):
        fid = "pest_typed::formatter::FormatOption::<SF, MF, NF>::" + nm
        b = g.bodies.get(fid)
        if b is None:
            rgt.violate(nm, "function missing (anchor lost)")
            continue
        inv._LETS = inv.collect_lets(b["value"])
        ncalls = 0
        # `a == b` conditions whose then-branch encloses a node
        eq_guards = {}

        def mark(e, conds):
            eq_guards[id(e)] = conds
            if e["k"] == "if":
                mark(e["cond"], conds)
                cd = e["cond"]
                mark(e["then"], conds + ((cd,) if cd["k"] == "binary" and cd.get("op") == "==" else ()))
                if "else" in e:
                    mark(e["else"], conds)
                return
            from ..hir import children
            for ch in children(e):
                mark(ch, conds)
        mark(b["value"], ())
        for n, guards in inv.walk_guarded(c, b["value"]):
            cal = n.get("callee")
            if not (cal and strip_generics(cal["path"]).startswith(SNIPPET_PREFIX)):
                continue
            ncalls += 1
            args = ([n["recv"]] if n["k"] == "mcall" else []) + n["args"]
            short = strip_generics(cal["path"]).rsplit("::", 1)[-1]
            # (self, f, width, line...) — the last Partition argument is the last line printed
            def resolve(e):
                while True:
                    while e["k"] in ("addr_of", "use", "cast") or (e["k"] == "block" and not e.get("stmts") and "tail" in e):
                        e = e["tail"] if e["k"] == "block" else e["e"]
                    if e["k"] == "local" and inv._LETS.get(e.get("var"), ("", None))[0] == "let":
                        e = inv._LETS[e["var"]][1]
                        continue
                    return e
            key = "%s -> %s" % (nm, short)
            loc = c.loc(n.get("sp"))
            w = resolve(args[2])
            wc = w.get("callee") if w["k"] in ("call", "mcall") else None
            parts = [resolve(a) for a in args[3:]]
            parts = [p_ for p_ in parts if p_["k"] == "call" and p_.get("callee") and
                     re.search(r"::Partition2?(::<[^>]*>)?::new$", strip_generics(p_["callee"]["path"]) if False else p_["callee"]["path"])]
            if not (wc and strip_generics(wc["path"]).endswith("::ceil_log10")) or not parts:
                rgt.violate(key, "cannot read the width (%s) or the last line's Partition" % inv.short_descr(c, args[2]), loc)
                continue
            warg = resolve(w["args"][0])
            first = resolve(parts[-1]["args"][0])
            if not (warg["k"] == "binary" and warg["op"] == "+" and warg["r"]["k"] == "lit" and (warg["r"]["v"] or {}).get("int") == "1"):
                rgt.violate(key, "gutter width is ceil_log10(%s), expected the largest printed number: (%s)+1" % (
                    inv.short_descr(c, warg)[:160], inv.short_descr(c, first)[:160]), loc)
                continue
            wl = inv.short_descr(c, resolve(warg["l"]))
            same = {inv.short_descr(c, first)}
            for cond in eq_guards.get(id(n), ()):
                a_, b_ = inv.short_descr(c, resolve(cond["l"])), inv.short_descr(c, resolve(cond["r"]))
                if a_ in same or b_ in same:
                    same |= {a_, b_}
            if wl in same:
                rgt.inst(key, loc, "ok", {"width_of": wl[:120] + "+1"})
            else:
                rgt.violate(key, "gutter width is ceil_log10((%s)+1) but the last line printed is number (%s)+1: rows with and without a number "
                            "get different widths when that number has more digits" % (wl[:160], sorted(same)[0][:160]), loc)
        if not ncalls:
            rgt.violate(nm, "no display_snippet_* call found (anchor lost)")
    rgt.require(3, "snippet calls")

    # the lines Display shows are cut by Span::lines / Position::find_line_*: these must split exactly as pest's do
    rl = ctx.rule("R14-LINES", "the line-splitting helpers Display reaches (Span::lines, Lines/LinesSpan::next, Position::find_line_start/"
                  "find_line_end/line_of, Span::as_str) have pest's bodies: a shown line is the whole source line, nothing more")
    from .c12_c13 import compare_pairs
    if fs.get("pest") is None:
        rl.violate("pest", "no facts for the pest crate")
    else:
        compare_pairs(ctx, rl, fs, LINE_FNS)
        from .c12_c13 import ident
        used = [f for f in LINE_FNS if ident(f, "pest_typed") in reach]
        rl.note("%d of these are in Display's call graph today" % len(used))
    rl.require(len(LINE_FNS), "helpers")
    ctx.assume("line numbers, line selection and marker columns are arithmetic over runtime values: not decided")
    ctx.assume("discharge reasons in tables/discharge_c14.json are reviewed arguments, part of the specification; a new site fails the check until reviewed")
    ctx.explanation = ("Call-graph inventory of panic-capable and usize-subtraction sites reachable from the Display/display entry points of "
                       "Span and Position, each matched by exact line-free key against a reviewed discharge table; the control-picture table "
                       "is read from the match; a must-pass-through rule requires a snippet on every successful path.")
