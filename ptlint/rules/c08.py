"""C08 — parsing a Span/Position sub-input equals parsing that slice on its own (structural clauses)."""
from .. import facts, edt, nodes, classes, snf
from ..hir import walk, strip_generics, children

INPUT_TRAIT = "pest_typed::input::Input"
ASINPUT = "pest_typed::input::AsInput"
M = "pest_typed::input::Input::"


def descr(c, e, lets=None, depth=0):
    """Line-free description of a pure expression: fields, method names, locals resolved through lets."""
    lets = lets or {}
    k = e["k"]
    if k == "local":
        if e["var"] in lets and depth < 6:
            return descr(c, lets[e["var"]], lets, depth + 1)
        return e.get("name", "?")
    if k == "field":
        return descr(c, e["base"], lets, depth) + "." + e["name"]
    if k in ("addr_of", "use", "cast"):
        return descr(c, e["e"], lets, depth)
    if k == "unary":
        return e["op"] + descr(c, e["e"], lets, depth)
    if k == "block" and not e.get("stmts") and "tail" in e:
        return descr(c, e["tail"], lets, depth)
    if k == "mcall":
        nm = strip_generics(e["callee"]["path"]).rsplit("::", 1)[-1] if e.get("callee") else e["name"]
        return "%s(%s)" % (nm, ", ".join([descr(c, e["recv"], lets, depth)] + [descr(c, a, lets, depth) for a in e["args"]]))
    if k == "call":
        nm = strip_generics(e["callee"]["path"]).rsplit("::", 1)[-1] if e.get("callee") else "?"
        return "%s(%s)" % (nm, ", ".join(descr(c, a, lets, depth) for a in e["args"]))
    if k == "struct":
        nm = (e.get("res") or {}).get("path", "?").rsplit("::", 1)[-1]
        return "%s{%s}" % (nm, ", ".join("%s: %s" % (f["name"], descr(c, f["e"], lets, depth)) for f in e["fields"]))
    if k == "lit":
        v = e["v"] or {}
        return str(v.get("int", v.get("str", v.get("bool", v))))
    if k == "index":
        return "%s[%s]" % (descr(c, e["base"], lets, depth), descr(c, e["idx"], lets, depth))
    if k == "binary":
        return "(%s %s %s)" % (descr(c, e["l"], lets, depth), e["op"], descr(c, e["r"], lets, depth))
    return k


def collect_lets(body):
    lets = {}
    from ..hir import pat_binds
    for n in walk(body):
        if n["k"] == "block":
            for s in n.get("stmts", []):
                if s["k"] == "let" and s["pat"].get("k") == "bind" and "init" in s:
                    lets[s["pat"]["var"]] = s["init"]
                elif s["k"] == "let" and "init" in s:
                    # `let Some(x) = e else { .. }` / destructuring: x is derived from e
                    for b in pat_binds(s["pat"]):
                        lets[b["var"]] = s["init"]
        if n["k"] == "let_cond":
            # `if let Some(x) = e`: x is derived from e
            for b in pat_binds(n["pat"]):
                lets[b["var"]] = n["init"]
    return lets


def tail_of(e):
    while e["k"] == "block" and not e.get("stmts") and "tail" in e:
        e = e["tail"]
    return e


def get_slices(c, body):
    """The slice expressions of a `get()` body: list of (checked?, base descr, range descr, node)."""
    out = []
    for n in walk(body):
        if n["k"] == "index":
            out.append(("checked", descr(c, n["base"]), descr(c, n["idx"]), n))
        if n["k"] in ("mcall", "call") and n.get("callee"):
            nm = strip_generics(n["callee"]["path"])
            if nm.endswith("::get_unchecked") or nm.endswith("::get"):
                args = ([n["recv"]] if n["k"] == "mcall" else []) + n["args"]
                if len(args) == 2:
                    out.append(("unchecked" if nm.endswith("get_unchecked") else "checked", descr(c, args[0]), descr(c, args[1]), n))
    return out


def parent_map(root):
    pm = {}
    for n in walk(root):
        for ch in children(n):
            pm[id(ch)] = n
    return pm


def get_rule(rg, repo, rel):
    """R08-GET instances for every Input impl in both build profiles, and the default at_start / at_end tests."""
    impls = [nodes.Impl(repo, it) for it in repo.impls() if it.get("trait") == INPUT_TRAIT]
    for im in impls:
        key = "Input for " + im.self_ty
        for crate, tag in ((repo, "debug"), (rel, "release")):
            imr = [nodes.Impl(crate, it) for it in crate.impls() if it.get("trait") == INPUT_TRAIT and crate.tys(it["self_ty"]) == im.self_ty]
            if not imr:
                rg.violate(key + " [" + tag + "]", "impl missing in this build profile", im.loc)
                continue
            m = imr[0].methods
            need = ("byte_offset", "input", "get", "cursor", "start", "end")
            if any(x not in m for x in need):
                rg.violate(key + " [" + tag + "]", "impl does not define %s" % [x for x in need if x not in m], im.loc)
                continue
            bo = descr(crate, tail_of(crate.body(m["byte_offset"])["value"]))
            cu = descr(crate, tail_of(crate.body(m["cursor"])["value"]))
            inp = descr(crate, tail_of(crate.body(m["input"])["value"]))
            en = descr(crate, tail_of(crate.body(m["end"])["value"]))
            sl = get_slices(crate, crate.body(m["get"])["value"])
            bad = None
            stt = descr(crate, tail_of(crate.body(m["start"])["value"]))
            adt = crate.item(strip_generics(im.self_ty.split("<")[0])) or crate.item(im.self_ty.split("<")[0])
            fields = set()
            for it_ in crate.item_list:
                if it_.get("kind") == "Struct" and it_["id"] == im.self_ty.split("<")[0]:
                    fields = {f["name"] for f in it_["variants"][0]["fields"]}
            if cu != bo:
                bad = "cursor() hands out %s but byte_offset() reads %s" % (cu, bo)
            elif stt == bo:
                bad = "start() returns the moving cursor (%s): SOI / at_start would hold wherever the cursor is" % stt
            elif "start" in fields and stt != "self.start":
                bad = "start() returns %s, not the `start` field the conversions fill in (R08-CONV)" % stt
            elif "start" not in fields and stt != "0":
                bad = "start() returns %s; an input without a start field starts at 0" % stt
            elif "end" in fields and en != "self.end":
                bad = "end() returns %s, not the `end` field the conversions fill in (R08-CONV)" % en
            elif not sl:
                bad = "get() does not slice the input"
            else:
                for kind, base, rng, node in sl:
                    if base != inp:
                        bad = "get() slices %s, input() is %s" % (base, inp)
                    elif rng == "RangeFrom{start: %s}" % bo:
                        if en != "len(%s)" % inp:
                            bad = "get() is open-ended but end() is %s, not the input's length" % en
                    elif rng == "Range{start: %s, end: %s}" % (bo, en):
                        pass
                    else:
                        bad = "get() slices %s; expected from the cursor (%s) up to end() (%s)" % (rng, bo, en)
                if len(set((b, r) for _, b, r, _ in sl)) != 1:
                    bad = "checked and unchecked arms of get() slice different ranges: %s" % [(k, r) for k, _, r, _ in sl]
            if bad:
                rg.violate(key + " [" + tag + "]", bad, crate.loc(crate.body(m["get"])["value"].get("sp")))
            else:
                rg.inst(key + " [" + tag + "]", im.loc, "ok", {"cursor": bo, "get": sl[0][2], "end": en})
    # default methods at_start / at_end
    for nm, other in (("at_start", "start"), ("at_end", "end")):
        b = repo.body(M + nm)
        d = descr(repo, tail_of(b["value"])) if b else None
        want = {"(byte_offset(self) == %s(self))" % other, "(%s(self) == byte_offset(self))" % other}
        if d in want:
            rg.inst("Input::" + nm, repo.loc(b["value"].get("sp")), "ok", {"test": d})
        else:
            rg.violate("Input::" + nm, "test is %s, expected byte_offset() == %s()" % (d, other), repo.loc(b["value"].get("sp")) if b else None)
        # an impl must not override it differently
        for im in impls:
            if nm in im.methods:
                d2 = descr(repo, tail_of(repo.body(im.methods[nm])["value"]))
                if d2 not in want:
                    rg.violate("%s::%s" % (im.self_ty, nm), "overrides %s with %s" % (nm, d2), im.loc)
    return impls


def run(ctx):
    fs = facts.load("core", "rel")
    repo = fs["pest_typed"]
    rel = fs["pest_typed.rel"]
    world = nodes.World(fs, ["pest_typed"])
    ctx.analysed = {"crates": ["pest_typed (debug assertions on)", "pest_typed (debug assertions off)"]}
    rg = ctx.rule("R08-GET", "for each Input impl: get() slices input from the cursor field up to exactly end(); byte_offset()/cursor() "
                             "denote that field; at_start/at_end compare byte_offset() with start()/end(); SOI/EOI use those tests")
    rb = ctx.rule("R08-BOUND", "in Input's methods the parent string (input()) only flows to position construction, debug assertions, or a "
                               "slice bounded above by end(); everything that decides a match derives from get()")
    rc = ctx.rule("R08-CONV", "AsInput conversions: &str/&String start at 0 of the string; Position: start = cursor = pos; "
                              "Span: start = cursor = span.start, end = span.end, input = the span's input")
    impls = get_rule(rg, repo, rel)
    for key, pid, cid, loc, im in world.twin_pairs():
        p = im.self_adt()[0]
        if p in ("pest_typed::predefined_node::SOI", "pest_typed::predefined_node::EOI"):
            want = "at_start" if p.endswith("SOI") else "at_end"
            for fid in (pid, cid):
                c = classes.classify(world.tree(fid))
                if c.get("cls") == "PRIM" and c["prim"] == want and not c["advance"]:
                    rg.inst(fid, loc)
                else:
                    rg.violate(fid, "%s does not test %s" % (p.rsplit("::", 1)[-1], want), loc)
    rg.require(12, "instances")

    # BOUND: uses of input() inside Input's methods (defaults and overrides)
    fns = [bid for bid in repo.bodies if bid.startswith(M)]
    for im in impls:
        fns += list(im.methods.values())
    n_uses = 0
    for fid in sorted(fns):
        b = repo.body(fid)
        if b is None:
            continue
        lets = collect_lets(b["value"])
        pm = parent_map(b["value"])
        short = fid.rsplit("::", 1)[-1]
        for n in walk(b["value"]):
            c = n.get("callee")
            if not (c and strip_generics(c["path"]) == M + "input"):
                continue
            n_uses += 1
            par = pm.get(id(n))
            # skip through autoref wrappers
            while par is not None and par["k"] in ("addr_of", "use"):
                par = pm.get(id(par))
            mb = repo.macros(n)
            ok = None
            if any(m.startswith("debug_assert") for m in mb):
                ok = "debug assertion"
            elif par is not None and par["k"] in ("call", "mcall") and par.get("callee"):
                pn = strip_generics(par["callee"]["path"])
                if pn.endswith("new_unchecked") or pn.endswith("Position::new") or pn.endswith("Span::new"):
                    ok = "position / span construction"
                elif pn.endswith("::get") or pn.endswith("::get_unchecked"):
                    args = ([par["recv"]] if par["k"] == "mcall" else []) + par["args"]
                    rng = descr(repo, args[1], lets) if len(args) > 1 else "?"
                    if rng.startswith("Range{") and rng.endswith("end: end(self)}"):
                        ok = "slice bounded by end(): " + rng
                    else:
                        ok = False
                        why = "parent string sliced with %s: not bounded above by end()" % rng
                else:
                    ok = False
                    why = "parent string passed to %s" % pn
            elif par is not None and par["k"] == "index":
                rng = descr(repo, par["idx"], lets)
                if rng.startswith("Range{") and rng.endswith("end: end(self)}"):
                    ok = "slice bounded by end(): " + rng
                else:
                    ok = False
                    why = "parent string indexed with %s: not bounded above by end()" % rng
            elif short == "input":
                continue
            else:
                ok = False
                why = "parent string used in %s" % (par["k"] if par else "?")
            k2 = "Input::%s: use of input()" % short
            if ok:
                rb.inst(k2, repo.loc(n.get("sp")), "ok: " + ok)
            else:
                rb.violate(k2, why + " — text at or beyond the end of a Span sub-input can influence the match", repo.loc(n.get("sp")))
    # who-may-be-called: the Input methods are the verified set; what they hand work to must be in it too (seed C08-6: an override of
    # skip_until that builds a Span and calls the pest-derived `Span::skip_until`, whose scan is not clipped at the span's end)
    rdel = ctx.rule("R08-DELEG", "Input's methods (defaults and overrides) call no function of pest_typed outside the Input trait, except the "
                                 "reviewed constructors / helpers and helpers that are themselves generic over `I: Input`")
    ALLOWED = {
        ("next", "pest_typed::position::Position::skip"): "impl Input for Position: advances its own pos by one char (sibling-equal to pest's, R01-PRIM)",
        ("as_position", "pest_typed::position::Position::new_unchecked"): "conversion, not a match",
        ("span", "pest_typed::position::Position::span"): "conversion, not a match",
    }
    def generic_over_input(fid):
        it = repo.item(fid)
        return bool(it) and any(pr.get("trait") == INPUT_TRAIT for pr in it.get("preds", []))
    def hands_over_parent(call, body):
        lets = collect_lets(body["value"])
        args = ([call["recv"]] if call["k"] == "mcall" else []) + list(call.get("args") or [])
        for a in args:
            d = descr(repo, a, lets)
            ty = repo.tys(a["ty"]) if a.get("ty") is not None else "?"
            bare = ty.replace("&mut ", "").replace("&", "").strip()
            if d in ("self", "*self") or bare in ("Self", "?") or any(x in ty for x in ("Position<", "Span<", "SubInput")):
                return True
            if "str" in ty and ("input(self)" in d or "self.input" in d):
                return True
        return False
    seen_helpers = set()
    work = [(f, f.rsplit("::", 1)[-1], 0) for f in sorted(set(fns))]
    while work:
        fid, short, depth = work.pop()
        b = repo.body(fid)
        if b is None:
            continue
        for n in walk(b["value"]):
            c = n.get("callee")
            if not c:
                continue
            pth = strip_generics(c["path"])
            if not pth.startswith("pest_typed::") or pth.startswith(M) or pth in fns:
                continue
            if any(m.startswith("debug_assert") for m in repo.macros(n)):
                continue
            k2 = "Input::%s -> %s" % (short, pth)
            if (short, pth) in ALLOWED:
                rdel.inst(k2, repo.loc(n.get("sp")), "ok: " + ALLOWED[(short, pth)])
            elif not hands_over_parent(n, b):
                rdel.inst(k2, repo.loc(n.get("sp")), "ok: helper over values that do not contain the parent string or self")
            elif generic_over_input(pth) and depth < 3:
                rdel.inst(k2, repo.loc(n.get("sp")), "ok: helper generic over Input (its own calls are checked too)")
                if pth not in seen_helpers:
                    seen_helpers.add(pth)
                    work.append((pth, short, depth + 1))
            else:
                rdel.violate(k2, "delegates to %s, which is not one of Input's own methods: nothing shows that it stops at end() — text "
                                 "beyond a Span sub-input may decide the match" % pth, repo.loc(n.get("sp")))
    rdel.require(3, "delegations")

    # a Position of the parent string has no end bound: the matching primitives must not go through it
    PRIMS = ("match_string", "match_insensitive", "skip_until", "skip", "match_range", "match_char_by", "next", "chars")
    for fid in sorted(f for f in fns):
        short = fid.rsplit("::", 1)[-1]
        if short not in PRIMS:
            continue
        b = repo.body(fid)
        if b is None:
            continue
        for n in walk(b["value"]):
            c = n.get("callee")
            if c and strip_generics(c["path"]) in (M + "as_position", "pest_typed::position::Position::from_start",
                                                   "pest_typed::position::Position::new", "pest_typed::position::Position::new_unchecked"):
                rb.violate("Input::%s: goes through a Position" % short,
                           "a matching primitive builds a Position of the parent string (%s): it forgets end(), so text beyond a Span "
                           "sub-input can be matched" % strip_generics(c["path"]).rsplit("::", 1)[-1], repo.loc(n.get("sp")))
    # match-deciding reads derive from get(): every starts_with / eq_ignore_ascii_case / chars() / bytes compare receiver
    DECIDE = ("starts_with", "eq_ignore_ascii_case", "chars", "as_bytes")
    for fid in sorted(f for f in fns if f.startswith(M)):
        b = repo.body(fid)
        lets = collect_lets(b["value"])
        short = fid.rsplit("::", 1)[-1]
        for n in walk(b["value"]):
            if n["k"] == "mcall" and n["name"] in DECIDE:
                src = descr(repo, n["recv"], lets)
                if n["name"] == "as_bytes" and "slice" in repr(n["recv"].get("ty")):
                    continue
                k2 = "Input::%s: %s on %s" % (short, n["name"], src.split("(")[0])
                if "get(self)" in src or "chars(self)" in src or src in ("string", "slice", "self") or src.startswith("*"):
                    rb.inst(k2, repo.loc(n.get("sp")), "ok: derived from " + src)
                elif "input(self)" in src:
                    # allowed only through a slice bounded by end() — checked above at the input() site
                    rb.inst(k2, repo.loc(n.get("sp")), "ok (bounded slice of the parent string checked at its input() site): " + src)
                else:
                    rb.violate(k2, "match decided on %s, which is not derived from get()" % src, repo.loc(n.get("sp")))
    rb.require(6, "uses")

    # LINEAGE: children and primitives run on the node's own input (or a cursor derived from it by matching), never on a
    # Position rebuilt from it — a Position knows nothing of the start / end of a Span or Position sub-input
    rlin = ctx.rule("R08-LINEAGE", "in every TypedNode / full-parse function, each child match and each cursor primitive operates on a cursor that "
                    "descends from the function's own input by matching; none operates on `input.as_position()` or another rebuilt value")
    fsl = facts.load("core", "fx_macros")
    wl = nodes.World(fsl, ["pest_typed", "fx_macros"])
    n_ev = 0
    for key, pid, cid, loc, im in wl.twin_pairs():
        if "::unicode::" in key and not key.endswith("LETTER"):
            continue
        for fid, mode in ((pid, "parse"), (cid, "check")):
            try:
                t = wl.tree(fid)
            except edt.Unsupported:
                continue
            bad = None
            for ev in classes.events(t):
                lab = ev[2]
                if lab[0] in ("MATCH", "NFMATCH", "FULL", "NFFULL") or lab[0].startswith(("match_", "skip", "next", "at_")):
                    n_ev += 1
                    if "untracked" in repr(lab):
                        bad = "%s runs on %s" % (lab[0], edt.fmt_val(lab[2]) if len(lab) > 2 else "?")
                        break
            k2 = "%s [%s]" % (key, mode)
            if bad:
                rlin.violate(k2, bad + ": not the node's own input — the bounds of a Span / Position sub-input are lost", loc, edt.fmt(t))
            else:
                rlin.inst(k2, loc, nontrivial=False)
    rlin.note("%d child-match / primitive events inspected" % n_ev)
    rlin.require(150, "functions")   # 168 today (Unicode property nodes are represented by one)

    # CONV
    want_conv = {
        "pest_typed::position::Position<'i>": {"input": {"self.input", "input(self)"}, "start": {"pos(self)", "self.pos"},
                                               "cursor": {"pos(self)", "self.pos"}},
        "pest_typed::span::Span<'i>": {"input": {"get_input(self)", "self.input"}, "start": {"start(self)", "self.start"},
                                      "end": {"end(self)", "self.end"}, "cursor": {"start(self)", "self.start"}},
    }
    for it in repo.impls():
        if it.get("trait") != ASINPUT:
            continue
        im = nodes.Impl(repo, it)
        b = repo.body(im.methods["as_input"])
        lets = collect_lets(b["value"])
        key = "AsInput for " + im.self_ty
        t = tail_of(b["value"])
        if im.self_ty in ("&'i str", "&'i alloc::string::String"):
            d = descr(repo, t, lets)
            if d in ("from_start(self)", "from_start(*self)"):
                rc.inst(key, im.loc, "ok", {"as_input": d})
            else:
                rc.violate(key, "conversion is %s, expected Position::from_start(self)" % d, im.loc)
            continue
        want = want_conv.get(im.self_ty)
        if want is None:
            rc.violate(key, "unknown AsInput impl: conversion not decided", im.loc)
            continue
        st = None
        for n in walk(b["value"]):
            if n["k"] == "struct":
                st = n
        if st is None:
            rc.violate(key, "does not build a sub-input struct", im.loc)
            continue
        got = {f["name"]: descr(repo, f["e"], lets) for f in st["fields"]}
        bad = [(f, got.get(f)) for f in want if got.get(f) not in want[f]]
        if bad or set(got) != set(want):
            rc.violate(key, "sub-input fields %s; expected %s" % (got, {k: sorted(v)[0] for k, v in want.items()}), im.loc)
        else:
            rc.inst(key, im.loc, "ok", got)
    rc.require(4, "conversions")
    ctx.assume("equality of whole parse results across the two ways of parsing is not decided; these are necessary structural conditions")
    ctx.assume("Position::from_start is pest's (C12 rule)")
    ctx.explanation = ("HIR data-flow over main/src/input.rs in both build profiles: the range get() slices, the fields behind "
                       "byte_offset/cursor/end, the start/end tests, every use of the parent string inside Input's methods, and the field "
                       "data-flow of the AsInput conversions.")
