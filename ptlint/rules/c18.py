"""C18 — value semantics (partial): manual PartialEq/Hash cover all fields, everything else derived, no state between calls."""
import re

from .. import facts, edt, nodes, classes, inv
from ..hir import walk, strip_generics

EQ = "core::cmp::PartialEq"
HASH = "core::hash::Hash"
CLONE = "core::clone::Clone"


def field_of(c, e, self_names=("self", "other")):
    """`self.a.b` -> 'a.b' ; None when not rooted at self/other"""
    inv._LETS = {}
    d = inv.short_descr(c, e)
    d = d.lstrip("*&")
    for s in self_names:
        if d.startswith(s + "."):
            return d[len(s) + 1:]
    return None


def eq_fields(c, body):
    out = []
    for n in walk(body["value"]):
        if n["k"] == "binary" and n["op"] == "==":
            a, b = field_of(c, n["l"]), field_of(c, n["r"])
            if a and a == b:
                out.append(a)
        if n["k"] in ("call", "mcall") and n.get("callee"):
            p = strip_generics(n["callee"]["path"])
            args = ([n["recv"]] if n["k"] == "mcall" else []) + n["args"]
            if (p.endswith("ptr::eq") or p.endswith("PartialEq::eq")) and len(args) == 2:
                a, b = field_of(c, args[0]), field_of(c, args[1])
                if a and a == b:
                    out.append(a)
    return out


def eq_shape(c, body):
    """A hand-written `eq` must be the conjunction of its field equalities: an `&&` tree whose leaves are `a.f == b.f`,
    `PartialEq::eq(&a.f, &b.f)`, `ptr::eq(..)` or `true`.  `||`, `!=`, `!` or anything else lets two values that differ in a
    field compare equal (mutation scan: `&&` -> `||` in seq!'s eq survived every check and the test suite).  None if it is."""
    e = body["value"]
    lets = {}
    for n in walk(e):
        if n["k"] == "block":
            for st in n.get("stmts", []):
                if st["k"] == "let" and "init" in st and st["pat"].get("k") == "bind":
                    lets[st["pat"]["var"]] = st["init"]

    def peel(x):
        while x["k"] in ("addr_of", "use", "cast") or (x["k"] == "block" and "tail" in x and all(st["k"] == "let" for st in x.get("stmts", []))):
            x = x["tail"] if x["k"] == "block" else x["e"]
        return x

    def leaf_ok(x):
        x = peel(x)
        if x["k"] == "local" and x["var"] in lets:
            return leaf_ok(lets[x["var"]])
        if x["k"] == "lit" and (x.get("v") or {}).get("bool") in (True, "true"):
            return None
        if x["k"] == "binary" and x["op"] == "&&":
            return leaf_ok(x["l"]) or leaf_ok(x["r"])
        if x["k"] == "binary" and x["op"] == "==":
            return None
        if x["k"] in ("call", "mcall") and x.get("callee"):
            p = strip_generics(x["callee"]["path"])
            if p.endswith("ptr::eq") or p.endswith("PartialEq::eq"):
                return None
            if p.endswith("Iterator::all") or p.endswith("Iterator::eq"):
                return None
        if x["k"] == "binary":
            return "`eq` combines its comparisons with `%s`: not a conjunction of field equalities" % x["op"]
        if x["k"] == "unary":
            return "`eq` negates a comparison (`%s`)" % x["op"]
        return "`eq` contains a `%s` expression where a field equality is expected" % x["k"]
    return leaf_ok(e)


def hash_fields(c, body):
    out = []
    for n in walk(body["value"]):
        if n["k"] in ("call", "mcall") and n.get("callee"):
            p = strip_generics(n["callee"]["path"])
            if p.endswith("Hash::hash"):
                args = ([n["recv"]] if n["k"] == "mcall" else []) + n["args"]
                f = field_of(c, args[0])
                if f:
                    out.append(f)
    return out


def struct_fields(c, adt_item):
    fs = []
    for f in adt_item["variants"][0]["fields"]:
        t = c.types[f["ty"]]
        if t["k"] == "adt" and t["path"].endswith("marker::PhantomData"):
            continue
        if t["k"] == "tuple" and f["name"] == "content":
            for i in range(len(t["elems"])):
                fs.append("%s.%d" % (f["name"], i))
        else:
            fs.append(f["name"])
    return fs


BAD_TYPES = ("std::collections::hash::map::HashMap", "std::collections::hash::set::HashSet", "hashbrown::", "std::hash::random::RandomState",
             "core::cell::Cell<", "core::cell::RefCell<", "std::sync::", "core::sync::atomic")
BAD_CALLS = ("std::time::", "std::env::", "std::thread::", "std::thread_local", "std::process::", "std::fs::", "rand::")


def nostate_findings(repo):
    """(category, key, message, loc): statics, shared-state / hash-ordered types, environment calls, thread-locals."""
    out = []
    for it in repo.item_list:
        if it["kind"].startswith("Static"):
            out.append(("static", "static " + it["id"], "static item in the runtime crate: results may depend on earlier calls", repo.loc(it.get("sp"))))
    for t in repo.types:
        sx = t["s"]
        for bt in BAD_TYPES:
            if bt in sx:
                out.append(("type", "type " + sx[:80], "hash-ordered collection / interior mutability / shared state type used in the runtime crate", None))
                break
    for fid in repo.bodies:
        if "::tests::" in fid:
            continue
        for n in walk(repo.body(fid)["value"]):
            cal = n.get("callee")
            if cal and strip_generics(cal["path"]).startswith(BAD_CALLS):
                out.append(("call", "call in " + fid, "call to %s: result may depend on the environment" % cal["path"], repo.loc(n.get("sp"))))
            if "thread_local" in repo.macros(n):
                out.append(("thread_local", "thread_local in " + fid, "thread-local state", repo.loc(n.get("sp"))))
    return out


def debug_rule(rule, c):
    """Hand-written Debug impls of node structs show every data field on every path (equality is derived over all fields; the
    property ties equality to the Debug rendering).  A field may be left out only where it is provably empty: an array `[X; P]`
    on a path whose conditions on the const parameter P imply P == 0 (Skipped's `if SKIP > 0 { .. } else { matched only }`)."""
    from ..hir import children

    def paths(e):
        """[(constraints, mentioned fields)] ; constraints: list of (param, op, int) known true"""
        k = e["k"]
        if k == "block":
            acc = [([], set())]
            parts = []
            for st in e.get("stmts", []):
                if st["k"] == "let" and "init" in st:
                    parts.append(st["init"])
                elif st["k"] == "expr":
                    parts.append(st["e"])
            if "tail" in e:
                parts.append(e["tail"])
            for part in parts:
                nxt = []
                for cs, ms in acc:
                    for cs2, ms2 in paths(part):
                        nxt.append((cs + cs2, ms | ms2))
                acc = nxt[:64]
            return acc
        if k == "if":
            cond = e["cond"]
            cons_t, cons_f = [], []
            if cond["k"] == "binary" and cond["l"]["k"] == "def" and cond["l"].get("kind") == "ConstParam" and cond["r"]["k"] == "lit" \
                    and "int" in (cond["r"].get("v") or {}) and cond["op"] in (">", ">=", "==", "!=", "<", "<="):
                pn = cond["l"]["path"].rsplit("::", 1)[-1]
                kv = int(cond["r"]["v"]["int"])
                neg = {">": "<=", ">=": "<", "==": "!=", "!=": "==", "<": ">=", "<=": ">"}
                cons_t, cons_f = [(pn, cond["op"], kv)], [(pn, neg[cond["op"]], kv)]
            base = mentions(cond)
            out = [(cons_t + cs, base | ms) for cs, ms in paths(e["then"])]
            if "else" in e:
                out += [(cons_f + cs, base | ms) for cs, ms in paths(e["else"])]
            else:
                out.append((cons_f, base))
            return out
        if k == "match":
            base = mentions(e["scrut"])
            out = []
            for arm in e["arms"]:
                # `match self { Self { content, .. } => .. }` (what derive macros write): a field bound by the pattern and used in
                # the arm is shown
                bound = pattern_fields(arm["pat"])
                used = {n["var"] for n in walk(arm["body"]) if n["k"] == "local"}
                viapat = {fname for var, fname in bound.items() if var in used}
                out += [(cs, base | viapat | ms) for cs, ms in paths(arm["body"])]
            return out
        return [([], mentions(e))]

    def pattern_fields(p):
        out = {}
        while p["k"] in ("ref", "deref"):
            p = p["p"]
        if p["k"] == "struct":
            for f in p.get("fields", []):
                q = f["p"]
                while q["k"] in ("ref", "deref"):
                    q = q["p"]
                if q["k"] == "bind":
                    out[q["var"]] = str(f["name"])
        return out

    def mentions(e):
        out = set()
        for n in walk(e):
            if n["k"] == "field":
                b = n["base"]
                while b["k"] in ("addr_of", "use", "cast") or (b["k"] == "unary" and b.get("op") == "*"):
                    b = b["e"]
                if b["k"] == "local" and b.get("name") == "self":
                    out.add(str(n["name"]))
        return out

    def implies_zero(cons, param):
        # unsigned: P <= 0, P < 1, P == 0
        return any(p == param and ((op == "<=" and kv == 0) or (op == "<" and kv == 1) or (op == "==" and kv == 0)) for p, op, kv in cons)

    for it in c.impls():
        if it.get("trait") != "core::fmt::Debug" or it.get("auto_derived"):
            continue
        im = nodes.Impl(c, it)
        path = im.self_adt()[0]
        adt = c.item(path)
        if adt and adt.get("kind") == "Enum" and path.startswith("pest_typed::choices::"):
            # ChoiceN: every arm renders its payload under its own variant's name (seed C18-8: every arm labelled `_0`)
            b = c.body(im.methods.get("fmt", ""))
            if b is None:
                continue
            vnames = [v["name"] for v in adt.get("variants", [])]
            bad = []
            arms = [a for n in walk(b["value"]) if n["k"] == "match" and n.get("src") == "normal" for a in n["arms"]]
            seen = []
            for a in arms:
                pat = a["pat"]
                while pat["k"] in ("ref", "deref"):
                    pat = pat["p"]
                if pat["k"] != "tstruct":
                    continue
                vn = pat["res"].get("path", "?").rsplit("::", 1)[-1]
                if vn not in vnames:
                    continue
                seen.append(vn)
                lits = {m["v"]["str"] for m in walk(a["body"]) if m["k"] == "lit" and "str" in (m.get("v") or {})}
                others = lits & (set(vnames) - {vn})
                used = {m["var"] for m in walk(a["body"]) if m["k"] == "local"}
                bound = [q["var"] for q in pat.get("ps", []) if q.get("k") == "bind"]
                if vn not in lits or others:
                    bad.append("variant %s is rendered under the label %s" % (vn, sorted(others) or "(none)"))
                if not bound or bound[0] not in used:
                    bad.append("variant %s's payload is not rendered" % vn)
            if sorted(seen) != sorted(vnames):
                bad.append("arms %s do not cover the variants %s" % (seen, vnames))
            key = path.rsplit("::", 1)[-1]
            if bad:
                rule.violate(key, "; ".join(sorted(set(bad))[:3]) + " — values in different alternatives render alike but compare unequal", im.loc)
            else:
                rule.inst(key, im.loc, "ok", {"variants": len(vnames)})
            continue
        if not adt or adt.get("kind") != "Struct" or not path.startswith(("pest_typed::predefined_node::", "pest_typed::sequence::")):
            continue
        if "::unicode::" in path and not path.endswith("::LETTER"):
            continue
        b = c.body(im.methods.get("fmt", ""))
        if b is None:
            continue
        fields = []
        for f in adt["variants"][0]["fields"]:
            ty = c.tys(f["ty"])
            if ty.startswith("core::marker::PhantomData"):
                continue
            arr = None
            t = c.types[f["ty"]]
            if t.get("k") == "array":
                arr = str(t.get("len", t.get("n", "")))
            fields.append((f["name"], ty, arr))
        bad = []
        npaths = 0
        for cons, ms in paths(b["value"]):
            npaths += 1
            for name, ty, arr in fields:
                if name in ms:
                    continue
                m = re.match(r"\[.*; (\w+)\]$", ty)
                if m and implies_zero(cons, m.group(1)):
                    continue
                bad.append("field `%s` is not shown on a path%s" % (name, (" where " + " and ".join("%s %s %d" % x for x in cons)) if cons else ""))
        key = path.rsplit("::", 1)[-1]
        if bad:
            rule.violate(key, "; ".join(sorted(set(bad))) + " — two values that differ in it compare unequal but render alike", im.loc)
        else:
            rule.inst(key, im.loc, "ok", {"fields": [f[0] for f in fields], "paths": npaths})


def run(ctx):
    fs = facts.load("core", "fx_macros")
    world = nodes.World(fs, ["pest_typed", "fx_macros"])
    ctx.analysed = {"crates": ["pest_typed", "fx_macros"]}
    rf = ctx.rule("R18-FIELDS", "every hand-written PartialEq::eq / Hash::hash compares / hashes every field, and the same fields")
    rd = ctx.rule("R18-DERIVED", "every other node type's Clone / PartialEq / Hash impls are #[derive]d")
    rn = ctx.rule("R18-NOSTATE", "no state outside the call: no static, thread_local, hash-ordered collection, clock or environment access in pest_typed; "
                                 "fresh Stack / Tracker per entry call")
    manual = {}
    for c in world.crates:
        impls_by_type = {}
        for it in c.impls():
            tr = it.get("trait")
            if tr in (EQ, HASH, CLONE, "core::cmp::Eq"):
                im = nodes.Impl(c, it)
                impls_by_type.setdefault(im.self_adt()[0], {})[tr] = (im, it.get("auto_derived"))
        # manual eq/hash
        for path, d in sorted(impls_by_type.items()):
            adt = None
            for cc in world.crates:
                x = cc.item(path)
                if x and x["kind"] == "Struct":
                    adt = (cc, x)
            for tr, meth, fn in ((EQ, "eq", eq_fields), (HASH, "hash", hash_fields)):
                if tr in d and not d[tr][1]:
                    im = d[tr][0]
                    b = c.body(im.methods.get(meth, ""))
                    if b is None or adt is None:
                        continue
                    got = fn(c, b)
                    manual.setdefault(path, {})[tr] = (got, im)
                    if tr == EQ:
                        why = eq_shape(c, b)
                        if why:
                            rf.violate("PartialEq for %s: shape" % path, why, im.loc)
        for path, d in sorted(manual.items()):
            if path not in impls_by_type:
                continue
            adt = None
            for cc in world.crates:
                x = cc.item(path)
                if x and x["kind"] == "Struct":
                    adt = (cc, x)
            if adt is None:
                continue
            want = struct_fields(adt[0], adt[1])
            for tr, (got, im) in d.items():
                key = "%s for %s" % (tr.rsplit("::", 1)[-1], path)
                if sorted(got) == sorted(want) and len(got) == len(set(got)):
                    rf.inst(key, im.loc, "ok", {"fields": got})
                else:
                    rf.violate(key, "covers fields %s, the type has %s" % (got, want), im.loc)
            if EQ in d and HASH in d and sorted(d[EQ][0]) != sorted(d[HASH][0]):
                rf.violate("Eq/Hash agree for " + path, "eq compares %s but hash feeds %s" % (d[EQ][0], d[HASH][0]), d[EQ][1].loc)
        manual = {}
        # derived: every type with a TypedNode impl
        for im in world.impls(nodes.TN_TRAIT):
            if im.crate is not c:
                continue
            path = im.self_adt()[0]
            if path in ("array", "tuple") or path.startswith("core::") or path.startswith("alloc::"):
                continue
            d = impls_by_type.get(path, {})
            key = path
            missing = [t.rsplit("::", 1)[-1] for t in (CLONE, EQ) if t not in d]
            if missing:
                rd.violate(key, "node type lacks %s" % missing, im.loc)
                continue
            nonderived = [t.rsplit("::", 1)[-1] for t in (CLONE, EQ, HASH) if t in d and not d[t][1]]
            # hand-written ones must have been validated by R18-FIELDS
            bad = [t for t in nonderived if t == "Clone"]
            if bad:
                rd.violate(key, "hand-written %s impl on a node type (not validated)" % bad, im.loc)
            else:
                rd.inst(key, im.loc, "ok", {"derived": [t.rsplit("::", 1)[-1] for t in d if d[t][1]], "hand_written_validated": nonderived},
                        nontrivial=("unicode" not in path))
    rf.require(20, "manual impls")
    rd.require(280, "node types")
    rdb = ctx.rule("R18-DEBUG", "hand-written Debug impls of node structs show every data field on every path (a field may be left out only "
                                "where it is provably an empty array)")
    debug_rule(rdb, fs["pest_typed"])
    rdb.require(15, "Debug impls")
    # NOSTATE
    repo = fs["pest_typed"]
    n_items = len(repo.item_list)
    for cat, key, msg, loc in nostate_findings(repo):
        rn.violate(key, msg, loc)
    # positive control: each scanner must fire on the construct it exists to find (fixtures/fx_controls)
    try:
        ctl = facts.load("fx_controls")["fx_controls"]
        got = {cat for cat, _, _, _ in nostate_findings(ctl)}
        for cat in ("static", "type", "call", "thread_local"):
            if cat in got:
                rn.inst("control: " + cat, None, "scanner fires on fixtures/fx_controls", nontrivial=False)
            else:
                rn.violate("control: " + cat, "the %s scanner does not fire on its positive control (fixtures/fx_controls): its silence on pest_typed is no evidence" % cat)
    except facts.BuildFailed as ex:
        rn.violate("control", "fixtures/fx_controls does not build: %s" % str(ex)[:200])
    rn.inst("pest_typed: items/types/calls scanned", None, "ok", {"items": n_items, "types": len(repo.types), "bodies": len(repo.bodies)})
    # fresh stack/tracker per entry (R04-DELEG instances)
    base = "pest_typed::typed_node::ParsableTypedNode::"
    for meth in ("try_parse", "try_check", "try_parse_partial", "try_check_partial"):
        t = world.tree(base + meth)
        evs = [e[2][0] for e in classes.events(t)]
        if evs[:2] == ["stack_new", "tracker_new"] and evs.count("stack_new") == 1 and evs.count("tracker_new") == 1:
            rn.inst(base + meth, world.fn_loc(base + meth), "ok: fresh Stack and Tracker")
        else:
            rn.violate(base + meth, "entry method does not start from a fresh Stack and Tracker: %s" % evs, world.fn_loc(base + meth))
    rn.require(9, "instances")
    ctx.assume("'equal exactly when same Debug rendering' on values is not decided; derived impls are rustc's")
    ctx.explanation = ("Impl tables of pest_typed and the macro fixture: hand-written eq/hash bodies are reduced to the set of fields they touch "
                       "and compared with the type's field list; every other node type must carry derived impls; the runtime crate is scanned "
                       "for statics, shared-state types and environment calls; entry methods build fresh Stack/Tracker (effect trees).")
