"""C04 — full parse succeeds only when the whole input is consumed."""
from .. import facts, edt, nodes, classes

PTN = nodes.PTN_TRAIT
EOI_NODE = "pest_typed::predefined_node::EOI"

# fixture-authored expectation: which fx_macros rules are (compound-)atomic, i.e. must not skip before EOI
ATOMIC_FIXTURE_RULES = {"A", "CA", "A2", "CA2", "EOI"}
SKIPPING_FIXTURE_RULES = {"NA", "N", "S", "NA2", "N2", "S2"}


def wrap_shape(t, self_ty, want_skip):
    """Check the wrapper's path invariants on the erased canonical tree. Returns (ok, why, info)."""
    s = classes.strip(t, drop={"snapshot", "restore", "clear_snapshot", "exit_record", "exit_polarity", "tracker_new"})
    if not (s[0] == "fork" and s[2][0] == "MATCH" and s[2][2] == "IN"):
        return False, "does not start with the prefix match on the given input", None
    if s[2][1][0] != self_ty:
        return False, "prefix match is of %s, not of the rule itself (%s)" % (s[2][1][0], self_ty), None
    if s[4] != classes.RET_FAIL:
        return False, "a failed prefix match does not simply fail", None
    n = s[3]
    cur = ("out", s[1])
    skipped = None
    if n[0] == "ev" and n[2][0] == "NFMATCH":
        if n[2][2] != cur:
            return False, "trailing skip does not start where the prefix match ended", None
        skipped = n[2][1][0]
        cur = ("out", n[1])
        n = n[3]
    if want_skip is True and skipped is None:
        return False, "non-atomic rule: no trailing skip between the prefix match and the end-of-input test", None
    if want_skip is False and skipped is not None:
        return False, "(compound-)atomic rule skips trailing %s before the end-of-input test" % skipped, None
    if not (n[0] == "ev" and n[2][0] == "enter_record"):
        return False, "end-of-input test is not recorded with the tracker", None
    rec_rule = n[2][1][0]
    if n[2][2] != cur:
        return False, "EOI attempt recorded at a position other than the current cursor", None
    n = n[3]
    if not (n[0] == "fork" and n[2][0] == "MATCH" and n[2][1][0] == EOI_NODE and n[2][2] == cur):
        return False, "no end-of-input test on the cursor after prefix match and trailing skip", None
    if not classes.is_ret_ok(n[3]) or n[4] != classes.RET_FAIL:
        return False, "result is not: success iff the end-of-input test succeeds", None
    return True, None, {"skip": skipped, "eoi_rule": rec_rule}


def run(ctx):
    fs = facts.load("core", "fx_macros")
    world = nodes.World(fs, ["pest_typed", "fx_macros"])
    ctx.analysed = {"crates": ["pest_typed", "fx_macros"]}
    rw = ctx.rule("R04-WRAP", "full-parse wrappers: prefix match -> trailing skip iff not atomic -> recorded end-of-input test -> "
                              "success iff it holds, returning the tree of the prefix match")
    rk = ctx.rule("R04-KIND", "the non-skipping wrapper is selected exactly for atomic / compound-atomic rules; entry impls exist for <'i, 1> only")
    rd = ctx.rule("R04-DELEG", "TypedParser / default entry methods build a fresh Stack and Tracker, call the `_with` method once, map Some->Ok, None->Err(collect())")
    re_ = ctx.rule("R04-EOI", "the EOI node succeeds exactly at end() without moving the cursor")
    for im in world.impls(PTN):
        name = im.self_adt()[0].rsplit("::", 1)[-1]
        want = True if name in SKIPPING_FIXTURE_RULES else (False if name in ATOMIC_FIXTURE_RULES else None)
        self_ty = world.ev.render(im.crate, im.item["self_ty"], {})
        for meth in ("try_parse_with", "try_check_with"):
            fid = im.methods.get(meth)
            if fid is None:
                rw.violate(im.key(), "missing " + meth, im.loc)
                continue
            k2 = "%s::%s" % (im.key(), meth)
            t = world.tree(fid)
            ok, why, info = wrap_shape(t, self_ty, want)
            if not ok:
                (rk if "skip" in (why or "") and "start" not in why else rw).violate(k2, why, im.loc, edt.fmt(t))
                continue
            # data flow of the returned tree (parse twin): it is the tree of the first event
            if meth == "try_parse_with":
                raw = world.tree(fid, erase=False)
                first = raw
                bad = None
                for lf in classes.all_leaves(raw):
                    if lf[1] == "ret" and isinstance(lf[2], tuple) and lf[2] and lf[2][0] == "some":
                        v = lf[2][1]
                        if v != ("pure", "tree", (("ev", first[1]),)):
                            bad = "returned tree is %s, not the tree produced by the prefix match" % edt.fmt_val(v)
                if bad:
                    rw.violate(k2, bad, im.loc, edt.fmt(raw))
                    continue
            if not (isinstance(info["eoi_rule"], tuple) and str(info["eoi_rule"]).find("::EOI") >= 0):
                rw.violate(k2, "end-of-input attempt is recorded under %s, not under the rule enum's EOI" % edt.fmt_val(info["eoi_rule"]), im.loc)
                continue
            rw.inst(k2, im.loc, "ok", info)
            if want is not None:
                rk.inst(k2, im.loc, "ok", {"fixture rule": name, "skips before EOI": info["skip"] is not None})
    # rule::{parse, check, parse_without_ignore, check_without_ignore} standalone
    for fn, want in (("parse", True), ("check", True), ("parse_without_ignore", False), ("check_without_ignore", False)):
        fid = "pest_typed::rule::" + fn
        t = world.tree(fid)
        ok, why, info = wrap_shape(t, "_Self", want)
        if ok:
            rw.inst(fid, world.fn_loc(fid), "ok", info)
        else:
            rw.violate(fid, why, world.fn_loc(fid), edt.fmt(t))
    rw.require(24, "wrapper functions")
    rk.require(20, "kind instances")
    # delegation
    base = "pest_typed::typed_node::ParsableTypedNode::"
    for meth, ev_op, okret in (("try_parse", "FULL", "RET_OK"), ("try_check", "FULL", "RET_OK"),
                               ("try_parse_partial", "MATCH", "RET_OK"), ("try_check_partial", "MATCH", "RET_OK")):
        fid = base + meth
        t = world.tree(fid)
        s = t
        shape = []
        n = s
        good = True
        while n[0] == "ev":
            shape.append(n[2][0])
            n = n[3]
        if shape != ["stack_new", "tracker_new"] or not (n[0] == "fork" and n[2][0] == ev_op and n[2][2] == "IN"):
            good = False
        else:
            args = n[2][1]
            if args[0] != "Self" or ("stack", "local") not in args or ("tracker", "local") not in args:
                good = False
            okb, failb = n[3], n[4]
            if not classes.is_ret_ok(okb):
                good = False
            if not (failb[0] == "ev" and failb[2][0] == "tracker_collect" and failb[3] == ("leaf", "RET_ERR")):
                good = False
        if good:
            rd.inst(fid, world.fn_loc(fid))
        else:
            rd.violate(fid, "entry method is not: fresh stack, fresh tracker at the input, one `_with` call, Some->Ok / None->Err(collect())",
                       world.fn_loc(fid), edt.fmt(t))
    for meth in ("try_parse", "try_check"):
        fid = "pest_typed::TypedParser::" + meth
        t = world.tree(fid)
        # single ENTRY event on the given input, result returned as is
        evs = list(classes.events(t))
        if len(evs) == 1 and evs[0][2][0] == "ENTRY" and evs[0][2][1] == ("T", meth):
            rd.inst(fid, world.fn_loc(fid))
        else:
            rd.violate(fid, "TypedParser::%s does not simply delegate to T::%s" % (meth, meth), world.fn_loc(fid), edt.fmt(t))
    rd.require(6, "entry methods")
    # EOI node
    for key, pid, cid, loc, im in world.twin_pairs():
        if im.self_adt()[0] == EOI_NODE:
            for fid in (pid, cid):
                c = classes.classify(world.tree(fid))
                if c.get("cls") == "PRIM" and c["prim"] == "at_end" and not c["advance"]:
                    re_.inst(fid, loc)
                else:
                    re_.violate(fid, "EOI is not the at_end test", loc, edt.fmt(world.tree(fid)))
    re_.require(2, "EOI functions")
    # what "end of input" means: nothing of the given input is left to read
    rn = ctx.rule("R04-END", "at_end() is 'no input left': for every Input impl, in both build profiles, get() reads from the cursor up to exactly "
                  "end() and at_end() compares the cursor with end() (R08-GET instances) — otherwise a fully matched Span / Position input "
                  "can be read past its end and rejected")
    from . import c08
    fs2 = facts.load("core", "rel")
    c08.get_rule(rn, fs2["pest_typed"], fs2["pest_typed.rel"])
    rn.require(8, "instances")
    # which skip the generated full-parse wrappers run: the grammar's own WHITESPACE / COMMENT, for the rule kinds that skip at all
    from . import c07_types
    c07_types.run(ctx, ids=("R04-SKIPCONST", "R04-SKIPTY", "R04-SKIPKIND"))
    ctx.assume("what the skip rules match on a given input (e.g. an unterminated comment) is the skip node's own behaviour")
    ctx.assume("which kind the generator passes to rule! for each grammar rule kind is decided under C07/C20 (generator templates)")
    ctx.explanation = ("Path invariants of the full-parse wrappers on their effect decision trees, for every expansion of the rule macros in "
                       "the fixture and for rule::{parse,check,*_without_ignore}: no success leaf without a successful end-of-input test on the "
                       "cursor after prefix match and trailing skip; no failure leaf when all three succeed; returned tree is the prefix match's.")
