"""C07 type-level part: atomicity constants at every skip position of derive output (kind-nesting fixture family),
the skip type alias, and which rule kinds get the skipping full-parse wrapper."""
from .. import facts, nodes, tt, edt, classes

PN = "pest_typed::predefined_node::"


def expected_skip_type(skip, module):
    r = module + "::rules_impl::rules::"
    ws = "%sWHITESPACE<'i, 0>" % r
    cm = "%sCOMMENT<'i, 0>" % r
    if skip == "both":
        return PN + "repetition::AtomicRepeat<pest_typed::choices::choice2::Choice2<%s, %s>>" % (ws, cm)
    if skip == "ws":
        return PN + "repetition::AtomicRepeat<%s>" % ws
    if skip == "cm":
        return PN + "repetition::AtomicRepeat<%s>" % cm
    return PN + "Empty<'i>"


def run(ctx, fs_unused=None, ids=("R07-CONST", "R07-SKIPTY", "R07-KIND")):
    """`ids`: C04 registers the same instances under its own rule ids (the trailing skip of a full parse is generics::Skipped)."""
    base = "fx_kinds3" if ctx.tier == "thorough" else "fx_kinds2"
    rc = ctx.rule(ids[0], "in every grammar of the kind-nesting family (optimized and raw-AST generator), every Skipped<_,_,K>, every repetition and "
                               "every rule reference inside rule r carries K = 0 (atomic / compound-atomic), 1 (non-atomic) or INHERITED (normal / silent) "
                               "according to r's own kind")
    rs = ctx.rule(ids[1], "generics::Skipped<'i> is AtomicRepeat over WHITESPACE<'i,0> / COMMENT<'i,0> (or Empty) according to which are defined, "
                                "and it is the skip type at every skip position and of every full-parse wrapper")
    rk = ctx.rule(ids[2], "derive output: the full-parse wrapper skips before EOI exactly for normal / silent / non-atomic rules")
    n_pos = 0
    for unit in (base, base + "r"):
        n_pos += run_unit(ctx, unit, rc, rs, rk)
    rc.note("%d skip / reference positions inspected" % n_pos)
    floor = 400 if base == "fx_kinds2" else 3000
    rc.require(floor, "rules")
    rs.require(200 if base == "fx_kinds2" else 1000, "grammars")
    rk.require(2 * floor, "wrapper functions")


def run_unit(ctx, unit, rc, rs, rk):
    fs = facts.load("core", unit)
    world = nodes.World(fs, ["pest_typed", unit])
    ct = tt.ClassTrees(world)
    ex = tt.load_expect(unit)
    kconst = ex["kconst"]
    fxc = fs[unit]
    ctx.analysed["fixtures " + unit] = "%d grammars (every nesting of the five rule kinds to depth %d x four WHITESPACE/COMMENT definitions%s)" % (
        len(ex["modules"]), ex["depth"], ", #[pest_optimizer = false]" if ex.get("generator") == "raw" else "")
    n_pos = 0
    for mod, info in sorted(ex["modules"].items()):
        module = "%s::%s" % (unit, mod)
        fx = tt.Fixture(fxc, module)
        # skip alias
        al = fxc.item(module + "::generics::Skipped")
        want_skip = expected_skip_type(info["skip"], module)
        if al is None or "alias_of" not in al:
            rs.violate(mod, "generics::Skipped alias missing")
            continue
        got_skip = fxc.tys(al["alias_of"])
        if got_skip == want_skip:
            rs.inst(unit + "::" + mod + ": alias", fxc.loc(al.get("sp")), "ok", {"Skipped": got_skip.replace(module + "::rules_impl::rules::", "")})
        else:
            rs.violate(unit + "::" + mod + ": alias", "generics::Skipped is %s, expected %s" % (got_skip, want_skip), fxc.loc(al.get("sp")))
        for r, kind in sorted(info["rules"].items()):
            t = fx.inner_type(r)
            key = "%s%s::%s (%s)" % ("raw:" if unit.endswith("r") else "", mod, r, kind)
            if t is None:
                rc.violate(key, "rule struct has no TypedNode impl")
                continue
            sk = []
            ct.tree(fx, t, sk)
            want = kconst[kind]
            bad = [s for s in sk if s[0] == "skip" and s[1] != want] + [s for s in sk if s[0] == "ref" and s[1] not in ("EOI",) and s[2] != want]
            n_pos += len(sk)
            if bad:
                rc.violate(key, "skip / reference positions carry %s, the rule's kind requires %s" % (sorted(set(str(b[1:]) for b in bad)), want),
                           fxc.loc(fx.rules[r].get("sp")))
            elif not sk:
                rc.violate(key, "no skip position found in a rule that has a sequence and a repetition (type tree not understood)")
            else:
                rc.inst(key, fxc.loc(fx.rules[r].get("sp")), "ok", {"positions": len(sk), "K": want})
            # skip type at each position
            import re as _re
            nl = lambda x: _re.sub(r"'\w+", "'_", x or "")
            wrong = [s for s in sk if s[0] == "skip" and nl(s[2]) != nl(want_skip)]
            if wrong:
                rs.violate(key, "a skip position uses %s instead of generics::Skipped" % wrong[0][2])
            # wrapper
            it = fx.impl_item(nodes.PTN_TRAIT, r)
            if it is None:
                rk.violate(key, "no ParsableTypedNode impl")
                continue
            im = nodes.Impl(fxc, it)
            for meth in ("try_parse_with", "try_check_with"):
                tr = world.tree(im.methods[meth])
                nf = [e for e in classes.events(tr) if e[2][0] == "NFMATCH"]
                want_nf = kind in ("N", "S", "X")
                if bool(nf) != want_nf:
                    rk.violate(key + "::" + meth, "%s rule %s trailing WHITESPACE/COMMENT before EOI" % (
                        {"N": "normal", "S": "silent", "X": "non-atomic", "A": "atomic", "C": "compound-atomic"}[kind],
                        "does not skip" if want_nf else "skips"), im.loc)
                else:
                    rk.inst(key + "::" + meth, im.loc, "ok", nontrivial=False)
                    if nf and nf[0][2][1][0] != world.ev.render(fxc, al["alias_of"], {}):
                        rs.violate(key + "::" + meth, "wrapper skips %s, not generics::Skipped" % nf[0][2][1][0], im.loc)
            consts = [a for kind_, a in im.self_adt()[1] if kind_ == "c"]
            if consts != ["1"]:
                rk.violate(key + ": entry", "ParsableTypedNode implemented for %s, expected <'i, 1>" % im.self_ty, im.loc)
    return n_pos
