"""C07 type-level part (fixtures + generator templates). Filled in once the fixture family exists."""


def run(ctx, fs):
    pass
