"""C19 — counted repetition and the raw combinators obey their stated bounds."""
from .. import facts, edt, nodes, classes
from . import c03, c07

REP = "pest_typed::predefined_node::repetition::"


def run(ctx):
    fs = facts.load("core", "fx_macros")
    world = nodes.World(fs, ["pest_typed"])
    repo = fs["pest_typed"]
    ctx.analysed = {"crates": ["pest_typed"]}
    rb = ctx.rule("R19-BOUNDS", "RepeatMin / RepeatMinMax: loop range 0.. / 0..MAX, one unit per iteration, success => carry its cursor, "
                                "failure => fail iff i < MIN else stop; i counts successes; never-failing impls exist only for MIN = 0")
    rs = ctx.rule("R19-SEQ", "[T; N] = N matches in a row; (T1, T2) = plain sequence; Option<T> = optional; SkipChar<N> skips N characters")
    rt = ctx.rule("R19-TWIN", "parse and check agree for the raw combinators (R03-TWIN instances)")
    ra = ctx.rule("R19-ALIAS", "RepExact/RepMin/RepMinMax/Rep/RepOnce aliases pass their bounds to the right const parameters")
    for key, pid, cid, loc, im in world.twin_pairs():
        path, args = im.self_adt()
        consts = [a for kind, a in args if kind == "c"]
        for fid, mode in ((pid, "parse"), (cid, "check")):
            k2 = "%s [%s]" % (key, mode)
            if path in (REP + "RepeatMin", REP + "RepeatMinMax", REP + "AtomicRepeat"):
                t = world.tree(fid)
                cls = classes.classify(t)
                if cls["cls"] != "REP":
                    rb.violate(k2, "not a greedy bounded repetition (class %s): loop range / lower-bound test / success counting cannot be established" % cls["cls"], loc, edt.fmt(t))
                    continue
                nf = im.trait == nodes.NF_TRAIT
                want_min = None
                want_range = None
                if path.endswith("RepeatMinMax"):
                    lo, hi = consts[0], consts[1]
                    want_range = ("range", ("lit", "0"), ("constg", hi))
                    want_min = lo
                elif path.endswith("RepeatMin"):
                    want_range = ("from", ("lit", "0"))
                    want_min = consts[0]
                else:
                    want_range = ("from", ("lit", "0"))
                    want_min = "0"
                bad = None
                if cls["range"] != want_range:
                    bad = "loop range is %s, the type says %s" % (cls["range"], want_range)
                elif cls["never_fails"] != nf and im.trait == nodes.NF_TRAIT:
                    bad = "never-failing impl has a failing path"
                elif cls["min"] is None:
                    # no lower-bound test: only right when MIN is 0
                    if want_min != "0":
                        bad = "no `i < MIN` test although MIN is %s" % want_min
                elif cls["min"] != ("constg", want_min):
                    bad = "failure test compares i with %s, the lower bound is %s" % (cls["min"], want_min)
                if nf and want_min != "0":
                    bad = "NeverFailedTypedNode implemented for a repetition whose MIN is %s (must be 0)" % want_min
                if bad:
                    rb.violate(k2, bad, loc, edt.fmt(t))
                else:
                    rb.inst(k2, loc, "ok", {"range": str(cls["range"]), "min": want_min, "unit": cls["child"]})
            elif path in ("array", "tuple", "core::option::Option", "pest_typed::predefined_node::SkipChar"):
                t = world.tree(fid)
                cls = classes.classify(t)
                bad = None
                if path == "array":
                    n = consts[0]
                    if not (cls["cls"] == "ARRAY" and cls["n"] == ("constg", n)):
                        bad = "[T; %s] is not %s matches of T in a row (class %s)" % (n, n, cls)
                elif path == "tuple":
                    names = [a["s"] for kind, a in args if kind == "t"]
                    if not (cls["cls"] == "SEQ" and cls["children"] == names and not cls["skips"]):
                        bad = "(T1, T2) is not the plain sequence of its components in order (class %s)" % (cls,)
                elif path == "core::option::Option":
                    if cls["cls"] != "OPT":
                        bad = "Option<T> is not an optional match (class %s)" % cls["cls"]
                else:
                    n = consts[0]
                    if not (cls["cls"] == "PRIM" and cls["prim"] == "skip" and cls["args"] == (("constg", n),)):
                        bad = "SkipChar<%s> does not skip exactly %s characters (%s)" % (n, n, cls)
                if bad:
                    rs.violate(k2, bad, loc, edt.fmt(t))
                else:
                    rs.inst(k2, loc, "ok", {"class": cls["cls"]})
    # skip-n-chars: the primitive behind SkipChar<N> advances over exactly n chars of the remaining (bounded) input
    from .. import inv
    table = inv.load_table("discharge_unsafe.json")
    fid = "pest_typed::input::Input::skip"
    b = repo.body(fid)
    if b is None:
        rs.violate("Input::skip", "primitive missing (anchor lost)")
    else:
        sites = inv.keyed(list(inv.sites(repo, fid, b, {"unsafe"})), fid)
        if sites and all(s["key"] in table for s in sites):
            rs.inst("Input::skip: cursor advance", sites[0]["loc"], "ok: reviewed entry (sum of the UTF-8 lengths of the first n chars of get())", {"key": sites[0]["key"]})
        else:
            rs.violate("Input::skip: cursor advance", "skip(n) does not advance by the lengths of the first n chars of get() in the reviewed way: %s" % [s["key"] for s in sites],
                       sites[0]["loc"] if sites else None)
    # Skip<Strings> is what the optimizer makes of `(!(s1 | ..) ~ ANY)*`: it never fails and goes on from where skip_until left the
    # cursor, found or not (seed C19-8: the parse twin handed back the starting cursor when no terminator was found)
    for key, pid, cid, loc, im in world.twin_pairs():
        if im.self_adt()[0] != "pest_typed::predefined_node::Skip":
            continue
        for fid, mode in ((pid, "parse"), (cid, "check")):
            t = world.tree(fid)
            k2 = "%s [%s]" % (key, mode)
            evs = list(classes.events(t))
            sk = [e for e in evs if e[2][0] == "skip_until"]
            leaves = list(classes.all_leaves(t))
            ok = len(sk) == 1 and sk[0][2][2] == "IN" and leaves and all(lf[1] == "RET_OK" and lf[2] == ("out", sk[0][1]) for lf in leaves)
            if ok:
                rs.inst(k2, loc, "ok", {"class": "skip-until"})
            else:
                rs.violate(k2, "Skip does not always succeed with the cursor skip_until left (leaves: %s)" % [" ".join(map(str, lf[1:3])) for lf in leaves][:4], loc, edt.fmt(t))
    rb.require(12, "repetition functions")
    rs.require(11, "raw combinator functions")
    # twins of these types
    def only(im):
        p, _ = im.self_adt()
        return p in (REP + "RepeatMin", REP + "RepeatMinMax", REP + "AtomicRepeat", "array", "tuple", "core::option::Option",
                     "pest_typed::predefined_node::SkipChar", "pest_typed::predefined_node::Skip")
    c03.twin_rule(ctx, world, rt, only)
    rt.require(10, "twin pairs")
    # aliases
    want = {
        "RepExact": ("RepeatMinMax", ["TIMES", "TIMES"]),
        "RepMin": ("RepeatMin", ["MIN"]),
        "RepMinMax": ("RepeatMinMax", ["MIN", "MAX"]),
        "Rep": ("RepeatMin", ["0"]),
        "RepOnce": ("RepeatMin", ["1"]),
    }
    for name, (target, consts) in want.items():
        it = repo.item(REP + name)
        if it is None or "alias_of" not in it:
            ra.violate(name, "public alias %s%s no longer exists" % (REP, name))
            continue
        t = repo.types[it["alias_of"]]
        p, a = nodes.type_adt(repo, t)
        got = [x for kind, x in a if kind == "c"]
        first = [x for kind, x in a if kind == "t"]
        fp = nodes.type_adt(repo, first[0])[0] if first else None
        if p != REP + target or got != consts or fp != "pest_typed::predefined_node::Skipped":
            ra.violate(name, "alias expands to %s, expected %s<Skipped<..>, %s>" % (t["s"], target, ", ".join(consts)), repo.loc(it.get("sp")))
        else:
            ra.inst(name, repo.loc(it.get("sp")), "ok", {"alias_of": t["s"]})
    ra.require(5, "aliases")
    # give-back (C07 rule instances on these types)
    rg = ctx.rule("R19-GIVEBACK", "never consumes a skip that is not followed by a matched iteration (R07-GIVEBACK instances)")
    c07.giveback_rule(ctx, world, rg)
    rg.require(8, "repetition loops")
    ctx.assume("generic children obey their own contracts (cursor untouched on failure)")
    ctx.explanation = ("Loop range, lower-bound test, success counting and exits of the repetition combinators, and the shapes of the raw "
                       "sequence combinators, are read off their effect decision trees (generic code: every child type, every input).")
