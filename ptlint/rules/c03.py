"""C03 — check ≡ parse: twin equality of effect decision trees."""
from .. import facts, edt, nodes


def default_method_pairs(world):
    base = "pest_typed::typed_node::ParsableTypedNode::"
    return [("ParsableTypedNode::try_parse / try_check (default methods)", base + "try_parse", base + "try_check"),
            ("ParsableTypedNode::try_parse_partial / try_check_partial (default methods)", base + "try_parse_partial", base + "try_check_partial"),
            ("rule::parse / rule::check", "pest_typed::rule::parse", "pest_typed::rule::check"),
            ("rule::parse_without_ignore / rule::check_without_ignore", "pest_typed::rule::parse_without_ignore",
             "pest_typed::rule::check_without_ignore")]


def twin_rule(ctx, world, rule, only=None):
    n_main = 0
    n_fx = 0
    unicode_shapes = set()
    for key, pid, cid, loc, im in world.twin_pairs():
        if only and not only(im):
            continue
        try:
            tp = world.tree(pid)
            tc = world.tree(cid)
        except edt.Unsupported as ex:
            rule.violate(key, "cannot build the effect tree (%s): the evaluator does not model a construct on this "
                              "path, so twin equality is not established" % ex, loc)
            continue
        unm = world.unmodelled(pid) + world.unmodelled(cid)
        if im.crate.name == "pest_typed":
            n_main += 1
        else:
            n_fx += 1
        if unm:
            rule.violate(key, "unmodelled construct on a path the rule quantifies over: %s" % (unm[0][0],), unm[0][1])
            continue
        if tp == tc:
            detail = None
            if pid in nodes.ASSUME:
                detail = {"exception": nodes.ASSUME[pid][1]}
            if "::unicode::" in im.self_ty:
                unicode_shapes.add(repr(tp).replace(im.self_ty.rsplit("::", 1)[-1], "<P>"))
            rule.inst(key, loc, "ok", detail)
        else:
            d = nodes.tree_diff(tp, tc)
            rule.violate(key, "parse twin and check twin have different effect trees", loc,
                         "parse (%s):\n%s\ncheck (%s):\n%s" % (world.fn_loc(pid), edt.fmt(d[0], 1), world.fn_loc(cid), edt.fmt(d[1], 1)))
    return n_main, n_fx, unicode_shapes


def run(ctx):
    # derive output: fx_mc holds derive-generated Choice12 / 13 / 17; the thorough tier adds every operator form and the getter fixture
    extra = ["fx_mc"] + (["fx_ops", "fx_getters"] if ctx.tier == "thorough" else [])
    units = ["core", "fx_macros"] + extra
    fs = facts.load(*units)
    world = nodes.World(fs, ["pest_typed", "fx_macros"] + extra)
    ctx.analysed = {"crates": ["pest_typed (lib, default features)", "fx_macros (every exported rule macro, seq!/choices! at arity 13)"] +
                    ["%s (derive output)" % x for x in extra]}
    r = ctx.rule("R03-TWIN", "every parse/check twin pair has equal normal-form effect decision trees "
                             "(cursor, stack, tracker events, guards, loop ranges, returned cursor)")
    n_main, n_fx, shapes = twin_rule(ctx, world, r)
    for key, pid, cid in default_method_pairs(world):
        try:
            tp = world.tree(pid)
            tc = world.tree(cid)
        except edt.Unsupported as ex:
            r.violate(key, "cannot build the effect tree: %s" % ex, world.fn_loc(pid))
            continue
        if tp == tc:
            r.inst(key, world.fn_loc(pid))
        else:
            d = nodes.tree_diff(tp, tc)
            r.violate(key, "parse-side and check-side functions have different effect trees", world.fn_loc(pid),
                      "parse:\n%s\ncheck:\n%s" % (edt.fmt(d[0], 1), edt.fmt(d[1], 1)))
    # floors: counted on the pinned tree — 27 hand-written + 11 Seq + 11 Choice + 259 Unicode + 4 never-failing in main
    r.require(300, "twin pairs")
    r.note("twin pairs: %d in pest_typed, %d in fx_macros, 4 default-method/function pairs; %d distinct Unicode tree shape(s)"
           % (n_main, n_fx, len(shapes)))
    if len(shapes) > 1:
        r.violate("unicode nodes", "Unicode property nodes do not all have the same effect tree up to the predicate name")
    ctx.assume("EDT construction is faithful: models of core items (Option, ?, for, array::from_fn, closures) as listed in DESIGN Appendix B")
    ctx.assume("a generic child obeys the same rule (induction over the type tree is by genericity); user-written TypedNode impls are out of scope")
    ctx.assume("`[T; N]` parse twin: Vec::try_into::<[T;N]>() Err arm is dead (reviewed exception)")
    ctx.explanation = ("For every impl of TypedNode / NeverFailedTypedNode / ParsableTypedNode in pest_typed and in the macro "
                       "fixture, the effect decision trees of the parse method and of the check method are built from typed "
                       "HIR by a path-sensitive evaluator (helpers inlined, events fork where they happen) and compared after "
                       "erasing the tree payload. Equal trees: same events on every path, same guards, same returned cursor "
                       "— for every instantiation, i.e. every grammar and input. No parser is run.")
