"""C11 — ill-formed grammars are rejected at generation time; emitted code compiles; parsing recurses only through the grammar (partial)."""
import re

from .. import facts, nodes, inv, tt
from ..hir import walk, strip_generics
from . import c20

ENTRY = "pest_typed_generator::typed::derive_typed_parser"


def run(ctx):
    thorough = ctx.tier == "thorough"
    optunit = "fx_options" if thorough else "fx_options_q"
    fs = facts.load("core", "fx_macros", "fx_ops", "fx_rawrep", "fx_boxing", optunit)
    gen = fs["pest_typed_generator"]
    ctx.analysed = {"crates": ["pest_typed_generator", "pest_typed", "fx_macros", "fx_ops", "fx_rawrep", "fx_boxing", optunit]}
    rg = ctx.rule("R11-GATE", "every rule list that reaches code emission is the value of unwrap_or_report(consume_rules(pairs)) "
                              "(directly or through optimize); emission is reachable only from derive_typed_parser")
    b = gen.body(ENTRY)
    if b is None:
        rg.violate("derive_typed_parser", "entry point missing (anchor lost)")
    else:
        inv._LETS = inv.collect_lets(b["value"])
        n_sites = 0
        for n in walk(b["value"]):
            cal = n.get("callee")
            if cal and strip_generics(cal["path"]) == "pest_typed_generator::typed::Input::new":
                n_sites += 1
                d = inv.short_descr(gen, n["args"][0])
                key = "Input::new #%d" % n_sites
                ok = re.match(r"^(optimize\()?unwrap_or_report\(consume_rules\(", d)
                if ok:
                    rg.inst(key, gen.src_loc(n), "ok", {"rules": d[:120]})
                else:
                    rg.violate(key, "rules handed to code emission are `%s`, not the validated result unwrap_or_report(consume_rules(..))" % d[:160], gen.src_loc(n))
        if n_sites == 0:
            rg.violate("Input::new", "no construction of the generator input found in derive_typed_parser")
        # the Result of consume_rules must be consumed by unwrap_or_report / unwrap / expect
        for n in walk(b["value"]):
            cal = n.get("callee")
            if cal and strip_generics(cal["path"]) == "pest_meta::parser::consume_rules":
                pass
    # who-may-call: emission functions only from the gated path
    g = inv.CallGraph([gen])
    emitters = ["pest_typed_generator::typed::generate_typed", "pest_typed_generator::graph::generate_typed_pair_from_rule",
                "pest_typed_generator::generator::generate_enum", "pest_typed_generator::typed::Input::<R>::new"]
    allowed_callers = {
        "pest_typed_generator::typed::generate_typed": {ENTRY},
        "pest_typed_generator::graph::generate_typed_pair_from_rule": {"pest_typed_generator::typed::generate_typed"},
        "pest_typed_generator::generator::generate_enum": {"pest_typed_generator::typed::generate_typed"},
        "pest_typed_generator::typed::Input::<R>::new": {ENTRY},
    }
    for tgt in emitters:
        if tgt not in g.bodies:
            rg.violate("who-may-call " + tgt, "function missing (anchor lost)")
            continue
        callers = {f for f, es in g.edges.items() if tgt in es and "::tests::" not in f and "tests::" not in f.split("::")[-2:][0]}
        callers = {f for f in callers if "::tests" not in f}
        extra = callers - allowed_callers[tgt]
        if extra:
            rg.violate("who-may-call " + tgt, "also called from %s: a path to code emission that may skip validation" % sorted(extra))
        else:
            rg.inst("who-may-call " + tgt, None, "ok", {"callers": sorted(callers)})
    # public surface of the generator: which pub fns reach emission
    for it in gen.fns():
        if it.get("vis") == "pub" and it["kind"] == "Fn" and it["id"] != ENTRY and "::tests::" not in it["id"]:
            reach = g.reachable([it["id"]])
            if any(e in reach for e in emitters[:3]):
                rg.violate("public entry " + it["id"], "public function reaches code emission without passing derive_typed_parser's validation", gen.loc(it.get("sp")))
    rg.require(5, "instances")

    # ---- emitted code compiles (shared with C20)
    rn = ctx.rule("R11-COMPILES", "for the fixture grammars (every operator form, optimizer on/off, recursive grammars, option sets) the emitted code compiles")
    for unit, what in (("fx_ops", "operator forms"), ("fx_boxing", "recursive grammars"), (optunit, "option sets"), ("fx_rawrep", "counted repetition without the optimizer")):
        err = c20.rustc_errors(fs, unit)
        if err is None:
            rn.inst("%s (%s)" % (unit, what), None, "ok")
        else:
            for code, msg in c20.error_keys(err):
                m = re.search(r"cannot find (?:type|struct|trait|value) `(\w+)` in module `[\w:]*generics`", msg)
                key = "generics::" + m.group(1) if m else "%s: %s" % (unit, re.sub(r"`[\w:]*::(\w+_\w+|o\d\d)::", "`<mod>::", msg)[:100])
                rn.violate(key, "pest accepts the fixture grammar but the emitted code does not compile: [%s] %s" % (code, msg))
    # every rule kind under every combination of WHITESPACE / COMMENT definitions (both / WHITESPACE only / COMMENT only / none),
    # both generators (seed C11-7: the COMMENT-only arm of the skip type named WHITESPACE — such grammars stopped compiling)
    for unit, what in (("fx_kinds2", "rule kinds x skip-rule combinations, optimizer on"), ("fx_kinds2r", "the same with pest_optimizer = false"),
                       ("fx_override", "grammars that shadow built-ins (NEWLINE, ASCII_*, unicode classes, WHITESPACE / COMMENT as tokens) and use them")):
        try:
            facts.load(unit)
            rn.inst("%s (%s)" % (unit, what), None, "ok")
        except facts.BuildFailed as ex:
            first = [l for l in ex.out.splitlines() if l.startswith("error")][:2]
            rn.violate("%s (%s)" % (unit, what), "pest accepts the fixture grammars but the emitted code does not compile: %s" % " | ".join(first)[:300])
    rn.require(6, "fixtures")

    # ---- recursion while parsing goes through the grammar only
    ra = ctx.rule("R11-ACYCLIC", "among the functions reachable from the parse entry points, calls that are not dispatched on a child node type form no cycle: "
                                 "all recursion while parsing goes through child matches, i.e. through the grammar")
    repo = fs["pest_typed"]
    gg = inv.CallGraph([repo, fs["fx_macros"]])
    from .c09 import ENTRIES
    reach = gg.reachable(ENTRIES)
    # direct (non trait-dispatched) edges
    direct = {}
    for f in reach:
        es = set()
        crate = gg.crate_of[f]
        for n in walk(gg.bodies[f]["value"]):
            cal = n.get("callee")
            if n.get("k") == "def" and n.get("kind") in ("Fn", "AssocFn") and n.get("path"):
                cal = n
            if not cal:
                continue
            tr = cal.get("trait") or ""
            if tr in (nodes.TN_TRAIT, nodes.NF_TRAIT, nodes.PTN_TRAIT, "pest_typed::iterators::Pairs", "pest_typed::iterators::Pair") or \
                    tr.startswith("core::") or tr.startswith("alloc::") or tr.startswith("std::"):
                continue          # child matches / std traits: recursion through these is recursion through the grammar's type tree
            t = cal.get("inst") or cal["path"]
            if t in gg.bodies and t in reach:
                es.add(t)
        direct[f] = es
    # Tarjan SCC
    index = {}
    low = {}
    stack = []
    onstack = set()
    sccs = []
    import sys
    sys.setrecursionlimit(10000)

    def strong(v):
        index[v] = low[v] = len(index)
        stack.append(v)
        onstack.add(v)
        for w in direct.get(v, ()):
            if w not in index:
                strong(w)
                low[v] = min(low[v], low[w])
            elif w in onstack:
                low[v] = min(low[v], index[w])
        if low[v] == index[v]:
            comp = []
            while True:
                w = stack.pop()
                onstack.discard(w)
                comp.append(w)
                if w == v:
                    break
            if len(comp) > 1 or v in direct.get(v, ()):
                sccs.append(comp)
    for v in sorted(direct):
        if v not in index:
            strong(v)
    for comp in sccs:
        ra.violate("cycle: " + " <-> ".join(sorted(c.rsplit("::", 1)[-1] for c in comp))[:150],
                   "direct recursion among functions on the parse path: %s" % sorted(comp)[:4])
    ra.inst("parse-path call graph", None, "ok" if not sccs else "cycles", {"functions": len(reach), "direct_edges": sum(len(v) for v in direct.values())})
    ra.require(1, "graph")

    # loops of the runtime
    from .. import loops
    rl = ctx.rule("R11-LOOPS", "every loop in pest_typed (and in the expansions of its macros) ends for a structural reason: `for` over a finite "
                  "iterator; `for` over `0..` only in the repetition nodes (R19-BOUNDS: goes on only after a matched iteration); `while`/`loop`: "
                  "every path back to the loop head changes something the exit conditions read")
    rep_prefix = ("<pest_typed::predefined_node::repetition::", "pest_typed::predefined_node::repetition::")
    kinds = {}
    for cn in ("pest_typed", "fx_macros"):
        cr = fs[cn]
        for fid, bs in cr.bodies.items():
            if "::tests::" in fid:
                continue
            for r in loops.analyse(cr, fid, bs[0]):
                kinds[r["kind"]] = kinds.get(r["kind"], 0) + 1
                if r["kind"] in ("for-finite", "while-ok"):
                    rl.inst(r["key"], r["loc"], "ok: " + r["kind"], r["detail"])
                elif r["kind"] == "for-unbounded":
                    if fid.startswith(rep_prefix):
                        rl.inst(r["key"], r["loc"], "ok: unbounded range in a repetition node (exits: R19-BOUNDS)", r["detail"])
                    else:
                        rl.violate(r["key"], "`for` over an unbounded range outside the repetition nodes", r["loc"])
                elif r["kind"] == "while-stuck":
                    rl.violate(r["key"], "a path from the loop head back to the loop head changes nothing the exit conditions read (%s): "
                               "once taken it is taken forever" % ", ".join(r["detail"]["conditions_read"]), r["loc"])
                elif r["kind"] == "for-unknown":
                    rl.violate(r["key"], "`for` over an iterator type that is not known to be finite: %s" % r["detail"]["iterator"], r["loc"])
                else:
                    rl.violate(r["key"], "loop without a recognisable exit (%s)" % r["kind"], r["loc"])
    rl.note("loops: %s" % sorted(kinds.items()))
    rl.require(100, "loops")

    # pest's validator counts PEEK / POP / DROP / slices as "progressing or failing": on an empty stack they must fail, or a
    # repetition over them never ends (seed C11-5) — C06's instances
    from . import c06
    ctx.adopt(c06.run, {"R06-OPS": "R11-STACKOPS", "R06-IDX": "R11-STACKIDX"})

    # progress: a terminal that succeeds on a non-empty match moves the real cursor, else `(.. ~ ANY)*`-style loops never end
    from .. import prims
    rpg = ctx.rule("R11-PROGRESS", "necessary for termination of repetitions over consuming bodies: every consuming Input primitive that reports "
                   "success has moved the input's own cursor (R01-PRIM instances)")
    prims.adv_rule(rpg, fs["pest_typed"])
    rpg.require(9, "primitives")
    ctx.assume("that the generator refuses exactly pest's set of ill-formed grammars rests on pest_meta::parser::consume_rules + validate_ast (pest's own code, trusted)")
    ctx.assume("termination of parsing on inputs is not decided; loops on the parse path are the repetition loops described under C19/C05")
    ctx.explanation = ("Data-flow in derive_typed_parser: the rule list given to the emitter is syntactically the validated value; who-may-call for "
                       "the emission functions; rustc on fixture grammars for 'emitted code compiles'; SCCs of the non-dispatched call graph on the parse path.")
