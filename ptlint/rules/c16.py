"""C16 — generated getters return exactly the referenced sub-nodes (partial): shape of the return type and the access
path of every leaf, both derived from the content type the derive emitted (fixtures; nothing is run)."""
import re

from .. import facts, nodes, tt, classes
from ..hir import walk, strip_generics

PN = "pest_typed::predefined_node::"
# built-in rules that are their own node types (a mention of the built-in is a mention of that type)
BUILTIN_NODES = {PN + n for n in ("ANY", "SOI", "PEEK", "PEEK_ALL", "POP", "POP_ALL", "DROP", "NEWLINE")}


def rule_name(fx, p):
    if fx.is_rule_path(p) or p in BUILTIN_NODES or p.startswith(PN + "unicode::"):
        return p.rsplit("::", 1)[-1]
    return None


# ---------------------------------------------------------------- expected shape from the content type

def wrap_opt(s):
    if s is None:
        return None
    if s[0] == "opt":
        return s            # nested options are flattened
    return ("opt", s)


def merge(parts):
    parts = [p for p in parts if p is not None]
    if not parts:
        return None
    if len(parts) == 1:
        return parts[0]
    return ("tuple", tuple(parts))


def expected(ct, fx, t, x, path=()):
    """Shape tree with leaf paths for direct mentions of rule `x` in type `t` (not through other rules, not under NEG)."""
    c = fx.c
    k = t["k"]
    if k == "tuple":
        return merge([expected(ct, fx, c.types[e], x, path + (("seq", i),)) for i, e in enumerate(t["elems"])])
    if k != "adt":
        return None
    p = t["path"]
    args = tt.targs(c, t)
    targ = [a for kind, a in args if kind == "t"]
    if rule_name(fx, p):
        return ("leaf", path) if rule_name(fx, p) == x else None
    if p == tt.SKIPPED:
        return expected(ct, fx, targ[0], x, path)
    if p == "alloc::boxed::Box":
        return expected(ct, fx, targ[0], x, path)
    if p == "core::option::Option":
        return wrap_opt(expected(ct, fx, targ[0], x, path + (("opt",),)))
    info = ct.cls.get(p)
    if info is None:
        return None
    cl = info["cls"]
    if cl == "SEQ":
        return merge([expected(ct, fx, a, x, path + (("seq", i),)) for i, a in enumerate(targ)])
    if cl == "CHOICE":
        return merge([wrap_opt(expected(ct, fx, a, x, path + (("choice", i),))) for i, a in enumerate(targ)])
    if cl == "REP":
        s = expected(ct, fx, targ[0], x, path + (("rep",),))
        return None if s is None else ("vec", s)
    if cl in ("POS", "PUSH"):
        return expected(ct, fx, targ[0], x, path + (("content",),))
    return None


def shape_only(s):
    if s is None:
        return None
    if s[0] == "leaf":
        return ("leaf",)
    if s[0] in ("opt", "vec"):
        return (s[0], shape_only(s[1]))
    return ("tuple", tuple(shape_only(x) for x in s[1]))


def leaf_paths(s):
    if s is None:
        return []
    if s[0] == "leaf":
        return [s[1]]
    if s[0] in ("opt", "vec"):
        return leaf_paths(s[1])
    out = []
    for x in s[1]:
        out += leaf_paths(x)
    return out


def mentioned_rules(ct, fx, t, acc, neg=False):
    c = fx.c
    k = t["k"]
    if k == "tuple":
        for e in t["elems"]:
            mentioned_rules(ct, fx, c.types[e], acc, neg)
        return
    if k != "adt":
        return
    p = t["path"]
    targ = [a for kind, a in tt.targs(c, t) if kind == "t"]
    if rule_name(fx, p):
        if not neg:
            acc.add(rule_name(fx, p))
        return
    if p == tt.SKIPPED:
        return mentioned_rules(ct, fx, targ[0], acc, neg)
    info = ct.cls.get(p, {})
    for a in targ:
        mentioned_rules(ct, fx, a, acc, neg or info.get("cls") == "NEG")


# ---------------------------------------------------------------- shape of a type

def type_shape(fx, t):
    c = fx.c
    k = t["k"]
    if k == "ref":
        return type_shape(fx, c.types[t["inner"]])
    if k == "tuple":
        return ("tuple", tuple(type_shape(fx, c.types[e]) for e in t["elems"]))
    if k == "adt":
        p = t["path"]
        targ = [a for kind, a in tt.targs(c, t) if kind == "t"]
        if rule_name(fx, p):
            return ("leaf",)
        if p == "core::option::Option":
            return ("opt", type_shape(fx, targ[0]))
        if p == "alloc::vec::Vec":
            return ("vec", type_shape(fx, targ[0]))
    return ("?", t["s"])


# ---------------------------------------------------------------- projection evaluation of a getter body

class Proj:
    """Abstract evaluation of a getter body: every value is an access path into the rule's content."""

    def __init__(self, crate):
        self.c = crate

    def run(self, body):
        env = {}
        return self.ev(body["value"], env)

    def ev(self, e, env):
        k = e["k"]
        if k == "block":
            env = dict(env)
            for st in e.get("stmts", []):
                if st["k"] == "let" and "init" in st and st["pat"].get("k") == "bind":
                    env[st["pat"]["var"]] = self.ev(st["init"], env)
            if "tail" in e:
                return self.ev(e["tail"], env)
            return None
        if k == "local":
            if e.get("name") == "self" and e["var"] not in env:
                return ("self",)
            return env.get(e["var"], ("?", e.get("name")))
        if k in ("addr_of", "use", "cast"):
            return self.ev(e["e"], env)
        if k == "unary" and e["op"] == "*":
            return self.ev(e["e"], env)
        if k == "field":
            base = self.ev(e["base"], env)
            if e["name"] == "content" and isinstance(base, tuple) and base and base[0] == "path" and e["base"].get("ty") is not None:
                bt = self.c.tys(e["base"]["ty"]).lstrip("&").replace("mut ", "")
                if bt.startswith((PN + "Positive<", PN + "Push<")):
                    # the `.content` hop of a look-ahead / PUSH node: the operand's node, a place like any other
                    return ("path", base[1] + (("content",),))
            return self.step_field(base, e["name"])
        if k == "tuple":
            return ("tuple", tuple(self.ev(x, env) for x in e["es"]))
        if k == "mcall":
            recv = self.ev(e["recv"], env)
            nm = e["name"]
            if nm in ("as_ref", "as_deref", "deref"):
                if isinstance(recv, tuple) and recv and recv[0] == "path" and e["recv"].get("ty") is not None and \
                        "core::option::Option<" in self.c.tys(e["recv"]["ty"])[:60]:
                    return ("optof", recv)
                return recv
            if re.match(r"_\d+$", nm):
                return ("optof", self.extend(recv, ("choice", int(nm[1:]))), "choice")
            if nm == "map" and e["args"] and e["args"][0]["k"] == "closure":
                clo = e["args"][0]
                if isinstance(recv, tuple) and recv and recv[0] == "optof":
                    inner_path = recv[1] if len(recv) > 2 else self.extend(recv[1], ("opt",))
                    env2 = dict(env)
                    env2[clo["params"][0]["var"]] = inner_path
                    return ("opt", self.ev(clo["body"], env2))
                if isinstance(recv, tuple) and recv and recv[0] == "iterof":
                    env2 = dict(env)
                    env2[clo["params"][0]["var"]] = ("elem", recv[1])
                    return ("vecmap", self.ev(clo["body"], env2))
                return ("?", "map on " + str(recv))
            if nm == "flatten":
                if isinstance(recv, tuple) and recv and recv[0] == "opt" and isinstance(recv[1], tuple) and recv[1] and recv[1][0] == "opt":
                    return recv[1]
                return ("?", "flatten on " + str(recv))
            if nm == "iter":
                return ("iterof", recv)
            if nm == "collect":
                if isinstance(recv, tuple) and recv and recv[0] == "vecmap":
                    return ("vec", recv[1])
                return ("?", "collect on " + str(recv))
            return ("?", nm)
        return ("?", k)

    def extend(self, base, step):
        if isinstance(base, tuple) and base and base[0] == "path":
            return ("path", base[1] + (step,))
        return ("?", "step %s on %s" % (step, base))

    def step_field(self, base, name):
        if base == ("self",):
            return ("path", ()) if name == "content" else ("?", "self." + name)
        if isinstance(base, tuple) and base:
            if base[0] == "path":
                if name == "content":
                    return ("contentof", base)
                if name == "matched":
                    return base          # elements reached through `.content.i` / iteration are Skipped<..>: .matched is the node
                return ("?", "field " + name)
            if base[0] == "contentof":
                if name.isdigit():
                    return ("path", base[1][1] + (("seq", int(name)),))
                return ("?", "content." + name)
            if base[0] == "elem":
                # element of `X.content.iter()`: a Skipped unit of a repetition
                inner = base[1]
                if name == "matched" and isinstance(inner, tuple) and inner[0] == "contentof":
                    return ("path", inner[1][1] + (("rep",),))
                return ("?", "elem." + name)
        return ("?", "field %s of %s" % (name, base))


def finalize(v):
    """Turn an evaluated value into a shape tree with leaf paths; 'contentof' of Push/Positive content is a `.content` step."""
    if not isinstance(v, tuple) or not v:
        return ("?", v)
    if v[0] == "path":
        return ("leaf", v[1])
    if v[0] == "contentof":
        return ("leaf", v[1][1] + (("content",),))
    if v[0] in ("opt", "vec"):
        return (v[0], finalize(v[1]))
    if v[0] == "tuple":
        return ("tuple", tuple(finalize(x) for x in v[1]))
    return ("?", v)


def fix_content_steps(shape, exp):
    return shape


def run(ctx):
    units = ["core", "fx_getters", "fx_getters_x"]
    fs = facts.load(*units)
    world = nodes.World(fs, ["pest_typed"])
    ct = tt.ClassTrees(world)
    ctx.analysed = {"fixtures": "fx_getters (emit_rule_reference; optimizer on / off; box_only_if_needed), fx_getters_x (grammar-extras: node "
                                "tags with tag getters off; optimizer on / off)"}
    rs = ctx.rule("R16-SHAPE", "a getter exists for exactly the rules mentioned outside negative predicates, and its return type is the "
                               "Option / Vec / tuple nesting of those mentions (nested options flattened)")
    rp = ctx.rule("R16-PATH", "each leaf of a getter's body denotes, in order, the position of the corresponding mention in the rule's content type")
    for unit, mod in [(u, m) for u in units[1:] for m in tt.load_expect(u)["modules"]]:
        fxc = fs[unit]
        ex = tt.load_expect(unit)
        module = unit + "::" + mod
        fx = tt.Fixture(fxc, module)
        for r in sorted(fx.rules):
            t = fx.inner_type(r)
            if t is None or r == "EOI":
                continue
            it = fx.rules[r]
            has_content = any(f["name"] == "content" for f in it["variants"][0]["fields"])
            if not has_content:
                continue      # atomic rules store no content: no getters by construction
            want_names = set()
            mentioned_rules(ct, fx, t, want_names)
            prefix = "%s%s::<'i, INHERITED>::" % (fx.prefix, r)
            got_names = set()
            for bid in fxc.bodies:
                if bid.startswith(prefix):
                    itf = fxc.item(bid)
                    if itf and itf.get("vis") == "pub" and itf["kind"] == "AssocFn" and itf.get("has_self"):
                        got_names.add(bid[len(prefix):])
            key0 = "%s::%s" % (mod, r)
            if got_names != want_names:
                rs.violate(key0 + ": getter set", "getters %s, rules mentioned outside negative predicates %s" % (sorted(got_names), sorted(want_names)),
                           fxc.loc(it.get("sp")))
            for x in sorted(want_names & got_names):
                key = "%s::%s.%s()" % (mod, r, x)
                exp = expected(ct, fx, t, x)
                itf = fxc.item(prefix + x)
                got_shape = type_shape(fx, fxc.types[itf["output"]])
                if shape_only(exp) == got_shape:
                    rs.inst(key, fxc.loc(itf.get("sp")), "ok", {"type": fxc.tys(itf["output"]).replace(fx.prefix, "")[:120]})
                else:
                    rs.violate(key, "return type has shape %s, the mentions in the content type give %s" % (got_shape, shape_only(exp)), fxc.loc(itf.get("sp")))
                    continue
                val = finalize(Proj(fxc).run(fxc.body(prefix + x)))
                if "?" in repr(val)[:0] or has_unknown(val):
                    rp.violate(key, "getter body is not a projection the evaluator understands: %s" % (val,), fxc.loc(itf.get("sp")))
                elif val == exp:
                    rp.inst(key, fxc.loc(itf.get("sp")), "ok", {"leaf_paths": [str(p) for p in leaf_paths(val)][:6]})
                else:
                    rp.violate(key, "leaves denote %s, the mentions are at %s (in grammar order)" % (leaf_paths(val), leaf_paths(exp)), fxc.loc(itf.get("sp")))
    rs.require(100, "getters")      # 123 today (fx_getters 3 modules + fx_getters_x 2 modules)
    rp.require(100, "getters")
    # source-level sibling rule: the two Generate impls build getters alike
    from .. import gensib
    rg = ctx.rule("R16-GENSIB", "the raw-AST and optimized-AST generators build getter forests identically for shared operators (R20-GENSIB instances)")
    gensib.run(rg, fs["pest_typed_generator"])
    rg.require(20, "arms")
    # the same with the `grammar-extras` cargo feature on: node tags (`#tag = e`) are one more shared operator, and with
    # emit_tagged_node_reference off a tag is transparent for rule getters in both generators (seed C16-6)
    rgx = ctx.rule("R16-GENSIBX", "with the grammar-extras feature, the two generators build getter forests identically for shared operators, node "
                                  "tags (NodeTag) included")
    genx = facts.load("extras")["pest_typed_generator.extras"]
    gensib.run(rgx, genx)
    if not any("arm NodeTag" in smp.get("construct", "") for smp in rgx.samples) and "arm NodeTag" not in repr(sorted(rgx.distinct)):
        rgx.violate("NodeTag", "no NodeTag arm was compared (anchor lost)")
    rgx.require(22, "arms")
    # the getters' `_k()` hops denote alternative k only if variant _k holds the k-th type parameter: C17's instances
    from . import c17
    ctx.adopt(c17.run, {"R17-PARAM": "R16-PARAM"})
    # what the getters hand out is what the content stores: container nodes keep every child that matched
    from . import store
    rst = ctx.rule("R16-STORE", "runtime container nodes (Option, sequences, choices, Positive, Push, Box, rule structs with content) return, on every "
                   "path, a node that contains the node of each child that matched on that path: a getter cannot miss a node that was matched")
    world2 = nodes.World(facts.load("core", "fx_macros"), ["pest_typed", "fx_macros"])
    store.store_rule(rst, world2)
    rst.require(30, "container functions")

    ctx.assume("that the nodes are 'the very nodes matched' on inputs follows from borrowing &self.content (types); decided here: shape and access path on the fixture grammars")
    ctx.assume("accessor `_k` denotes variant k (C17 R17-PARAM); expected mentions are computed from the emitted content type, independently of the generator's getter code")
    ctx.explanation = ("On fixture grammars with repeated mentions, nested options / choices / repetitions and mentions under predicates, the "
                       "content type rustc assigned to each rule is walked to enumerate direct mentions with their wrapper context and access "
                       "path; the getter's declared return type and the abstract evaluation of its body (as a projection) must agree with it.")


def has_unknown(v):
    if isinstance(v, tuple):
        if v and v[0] == "?":
            return True
        return any(has_unknown(x) for x in v)
    return False
