"""C07 — atomicity and implicit skipping.

EDT part: where skip events may occur (R07-PLACE), give-back (R07-GIVEBACK), entry points (R07-ENTRY).
Fixture / generator parts (R07-CONST, R07-SKIPTY, R07-SITES) live in c07_types.py and are called from here.
"""
from .. import facts, edt, nodes, classes

PTN = nodes.PTN_TRAIT


def nf_events(t):
    return [e for e in classes.events(t) if e[2][0] == "NFMATCH"]


def place_rule(ctx, world, r, rg):
    seq_with, seq_without, reps, fulls, others = 0, 0, 0, 0, 0
    unicode_done = False
    for key, pid, cid, loc, im in world.twin_pairs():
        if "::unicode::" in key:
            if unicode_done:
                continue
            unicode_done = True
        for fid, mode in ((pid, "parse"), (cid, "check")):
            k2 = "%s [%s]" % (key, mode)
            try:
                t = world.tree(fid)
            except edt.Unsupported as ex:
                r.violate(k2, "cannot build the effect tree: %s" % ex, loc)
                continue
            nfs = nf_events(t)
            cls = classes.classify(t)
            sp = im.skipped_params()
            if im.trait == PTN:
                # (c) full-parse wrapper: at most one skip, between MATCH(Self) and the EOI test
                fulls += 1
                s = classes.strip(t)
                okc = True
                if nfs:
                    okc = (len(nfs) == 1 and s[0] == "fork" and s[2][0] == "MATCH" and s[3][0] == "ev"
                           and s[3][2][0] == "NFMATCH" and s[3][2][2] == ("out", s[1])
                           and s[3][3][0] == "fork" and s[3][3][2][0] == "MATCH" and s[3][3][2][2] == ("out", s[3][1]))
                if okc:
                    r.inst(k2, loc, "ok", {"skips": len(nfs), "context": "full-parse wrapper"})
                else:
                    r.violate(k2, "skip event in a full-parse wrapper is not exactly between the prefix match and the end-of-input test", loc, edt.fmt(t))
                continue
            if cls["cls"] in ("SEQ", "WRAP") and sp is not None:
                S, K = sp
                skips = cls.get("skips", {})
                n = cls.get("n", 1)
                want = set(range(1, n))
                bad = None
                if set(skips) != want:
                    bad = "skip loops before elements %s, expected before every element but the first (%s)" % (sorted(skips), sorted(want))
                elif len(nfs) != len(skips):
                    bad = "%d skip events outside the per-element skip loops" % (len(nfs) - len(skips))
                else:
                    for k, sk in skips.items():
                        if sk["S"] != S or sk["K"] != ("constg", K):
                            bad = "skip loop before element %d runs %s x %s, the element type says %s x %s" % (k, sk["K"], sk["S"], K, S)
                if bad:
                    r.violate(k2, bad, loc, edt.fmt(t))
                else:
                    seq_with += 1
                    r.inst(k2, loc, "ok", {"class": "SEQ(%d)" % n, "skip_positions": sorted(skips), "skip": [S, K]})
                continue
            if cls["cls"] == "REP" and sp is not None:
                S, K = sp
                sk = cls.get("skip")
                bad = None
                if sk is None:
                    bad = "repetition over Skipped<_, %s, %s> has no skip between iterations" % (S, K)
                elif sk["S"] != S or sk["K"] != ("constg", K):
                    bad = "repetition skips %s x %s, the unit type says %s x %s" % (sk["K"], sk["S"], K, S)
                elif len(nfs) != 1:
                    bad = "%d skip events, expected exactly the one between iterations" % len(nfs)
                if bad:
                    r.violate(k2, bad, loc, edt.fmt(t))
                else:
                    reps += 1
                    r.inst(k2, loc, "ok", {"class": "REP", "skip_guard": "not ZERO(i)", "skip": [S, K]})
                    rg.inst(k2, loc, "ok", {"failed iteration": "BREAK with the loop-carried cursor unchanged; skip and child inside one snapshot"})
                continue
            # anything else: no skip event at all
            if nfs:
                r.violate(k2, "skip/never-failing match event in a node that has no skip position (class %s)" % cls["cls"], loc, edt.fmt(t))
            else:
                others += 1
                r.inst(k2, loc, "ok", {"class": cls["cls"], "skips": 0}, nontrivial=(cls["cls"] in ("SEQ", "REP", "ARRAY", "WRAP")))
            if sp is not None and cls["cls"] not in ("SEQ", "REP", "WRAP"):
                r.violate(k2, "node over Skipped<..> elements is neither a sequence nor a repetition (class %s): skip placement undecidable" % cls["cls"], loc, edt.fmt(t))
    r.note("sequences with skip positions: %d functions; repetitions: %d; full-parse wrappers: %d; nodes without skip position: %d" % (seq_with, reps, fulls, others))
    return seq_with, reps, fulls


def giveback_rule(ctx, world, rg):
    """In any loop, a failed child leaves the loop-carried cursor untouched (BREAK/CONTINUE carry identity)."""
    for key, pid, cid, loc, im in world.twin_pairs():
        if "::unicode::" in key:
            continue
        for fid, mode in ((pid, "parse"), (cid, "check")):
            try:
                t = world.tree(fid)
            except edt.Unsupported:
                continue
            for n, path in edt.iter_nodes(t):
                if n[0] != "loop" or not n[3]:
                    continue
                lid = n[1]
                ident = tuple(("cur", ("loop", lid, j)) for j in range(len(n[3])))
                for m, _ in edt.iter_nodes(n[4]):
                    if m[0] == "fork" and m[2][0] == "MATCH":
                        for lf in classes.all_leaves(m[4]):
                            if lf[1] in ("BREAK", "CONTINUE") and lf[2] == lid:
                                k2 = "%s [%s] loop L%d" % (key, mode, lid)
                                if lf[3] != ident:
                                    rg.violate(k2, "after a failed iteration the loop continues/ends with a cursor other than the one "
                                                   "before the iteration (skipped text is not given back)", loc, edt.fmt(t))
                                else:
                                    rg.inst(k2, loc)


def entry_rule(ctx, world, r):
    for im in world.impls(PTN):
        path, args = im.self_adt()
        consts = [a for kind, a in args if kind == "c"]
        is_eoi = any(m for m in [im.macro or ""] if "rule_eoi" in m)
        if consts == ["1"]:
            r.inst(im.key(), im.loc, "ok", {"self": im.self_ty})
        elif is_eoi:
            r.inst(im.key(), im.loc, "ok (rule_eoi!: generic over INHERITED; EOI has no skip position)", nontrivial=False)
        else:
            r.violate(im.key(), "full-parse entry implemented for %s, expected only for <'i, 1> (top-level entry runs non-atomic)" % im.self_ty, im.loc)


def run(ctx):
    fs = facts.load("core", "fx_macros")
    world = nodes.World(fs, ["pest_typed", "fx_macros"])
    ctx.analysed = {"crates": ["pest_typed", "fx_macros"]}
    r = ctx.rule("R07-PLACE", "skip events occur exactly between sequence elements, before iterations i>0 (guarded), and before EOI in the "
                              "skipping full-parse wrapper — and nowhere else; rule structs contain none")
    rg = ctx.rule("R07-GIVEBACK", "a skip made before an iteration that then fails is given back (loop-carried cursor unchanged)")
    seq_with, reps, fulls = place_rule(ctx, world, r, rg)
    giveback_rule(ctx, world, rg)
    re_ = ctx.rule("R07-ENTRY", "ParsableTypedNode is implemented only for <'i, 1>")
    entry_rule(ctx, world, re_)
    r.require(150, "functions")
    rg.require(12, "repetition loops")
    re_.require(10, "entry impls")
    if seq_with < 24:
        r.violate("<floor:seq>", "only %d sequence functions with skip positions analysed, expected >= 24 (Seq2..Seq13 x 2 twins)" % seq_with)
    if reps < 8:
        r.violate("<floor:rep>", "only %d repetition functions with skip analysed, expected >= 8" % reps)
    from . import c07_types
    c07_types.run(ctx, fs)
    ctx.assume("what WHITESPACE/COMMENT match on an input is the skip node's own behaviour (not decided)")
    ctx.assume("the skip parameter is identified structurally: second argument of Skipped<_, S, K> in the impl's self type")
    ctx.explanation = ("Placement of implicit-skip events is read off the effect decision trees of every combinator and of every expansion "
                       "of the rule macros; the atomicity constants at every skip position are read off the types rustc assigned to the "
                       "derive output on the kind-nesting fixture family (no parser is run).")
