"""STORE — a container node keeps the node of every child that matched on the path it returns from.

Non-erased parse-twin trees: on every path to a success leaf, each MATCH(child) that succeeded outside a loop must occur as
`tree(event)` inside the returned node.  Exempt by design: look-ahead that discards its operand (Negative), rule structs that
emit only a span (atomic rules), and nodes that hold text instead of children (checked by R17-LEAF).
Registered under C16 (getters can only hand out what the content stores) and C17 (accessors reflect what was matched)."""
from .. import edt, classes

PN = "pest_typed::predefined_node::"
DISCARDS = (PN + "Negative",)


def paths(t, matched, in_loop):
    tag = t[0]
    if tag == "leaf":
        yield t, matched
    elif tag == "ev":
        yield from paths(t[3], matched, in_loop)
    elif tag == "fork":
        is_match = t[2][0] == "MATCH" and not in_loop
        yield from paths(t[3], matched + ([t[1]] if is_match else []), in_loop)
        yield from paths(t[4], matched, in_loop)
    elif tag == "opq":
        for _, sub in t[2]:
            yield from paths(sub, matched, in_loop)
    elif tag == "loop":
        yield from paths(t[4], matched, True)
        yield from paths(t[5], matched, in_loop)
    elif tag == "unm":
        yield from paths(t[2], matched, in_loop)


def store_rule(rule, world):
    n = 0
    for key, pid, cid, loc, im in world.twin_pairs():
        p, args = im.self_adt()
        if p in DISCARDS or "::unicode::" in key:
            continue
        if key.startswith("ParsableTypedNode for") or key.startswith("NeverFailedParsableTypedNode for"):
            continue      # full-parse wrappers match EOI only to test for it: its node is discarded by design (C04's rules)
        try:
            t = world.tree(pid, erase=False)
        except edt.Unsupported:
            continue
        bad = None
        n_paths = 0
        for leaf, matched in paths(t, [], False):
            if leaf[1] != "ret" or not (isinstance(leaf[2], tuple) and leaf[2] and leaf[2][0] == "some"):
                continue
            if not matched:
                continue
            n_paths += 1
            val = repr(leaf[2])
            for ev in matched:
                if "('pure', 'tree', (('ev', %d),))" % ev not in val:
                    bad = "a path on which child match e%d succeeded returns a node that does not contain it: %s" % (ev, edt.fmt_val(leaf[2])[:160])
                    break
            if bad:
                break
        if n_paths == 0:
            continue
        # span-only rule structs (atomic rules) keep no content by design: they have no `content` field
        if bad and not im_has_content(im):
            continue
        n += 1
        if bad:
            rule.violate(key, bad, loc, edt.fmt(t))
        else:
            rule.inst(key, loc, "ok", {"success_paths_with_children": n_paths})
    for c in world.crates:
        if c.name == "pest_typed":
            n += rep_store_rule(rule, c)
    return n


def rep_store_rule(rule, crate):
    """Repetition nodes: inside the loop, every round that matched (the loop-carried cursor is replaced by the cursor the unit
    returned) pushes the node matched in that round — once — to the vector the function returns as `content`; a round that did not
    match pushes nothing.  (The tree rule above does not look into loops; mutation scan: `vec.push(matched);` deleted.)"""
    from .. import prims
    from ..hir import walk, strip_generics, pat_binds

    class P(prims.Paths):
        def write_of(self, n):
            if n["k"] == "assign" and n["l"]["k"] == "local":
                r = prims._peel(n["r"])
                return ("set", n["l"]["var"], r["var"] if r["k"] == "local" else None)
            if n["k"] == "mcall" and n.get("callee") and strip_generics(n["callee"]["path"]) == "alloc::vec::Vec::push":
                a = prims._peel(n["args"][0])
                rv = prims._peel(n["recv"])
                return ("push", rv["var"] if rv["k"] == "local" else None, a["var"] if a["k"] == "local" else None)
            return None

    n_fns = 0
    for fid, bs in sorted(crate.bodies.items()):
        if "::repetition::" not in fid or not (fid.endswith("::parse_with") or fid.endswith("::try_parse_partial_with")):
            continue
        b = bs[0]
        loops = [n for n in walk(b["value"]) if n["k"] == "loop"]
        if not loops:
            continue
        # the vector that becomes `content`
        lits = [n for n in walk(b["value"]) if n["k"] == "struct"]
        cvars = set()
        for st in lits:
            for f in st["fields"]:
                if f["name"] == "content":
                    e = prims._peel(f["e"])
                    if e["k"] == "local":
                        cvars.add(e["var"])
        # pattern siblings: var bound next to the cursor in `Some((next, matched))`
        sib = {}
        for n in walk(b["value"]):
            pats = []
            if n["k"] == "match":
                pats = [a["pat"] for a in n["arms"]]
            elif n["k"] == "let_cond":
                pats = [n["pat"]]
            elif n["k"] == "block":
                pats = [st["pat"] for st in n.get("stmts", []) if st["k"] == "let"]
            for pt in pats:
                bs_ = list(pat_binds(pt))
                if len(bs_) == 2:
                    sib[bs_[0]["var"]] = bs_[1]["var"]
        key = fid.replace("pest_typed::predefined_node::repetition::", "")
        loc = crate.loc(b["value"].get("sp"))
        n_fns += 1
        bad = None
        lp = loops[-1] if len(loops) > 1 else loops[0]
        try:
            pp = P(crate, {"value": lp["body"], "params": []}, set())
            paths_ = [(oc, w) for oc, v, w, f in pp.run(lp["body"], (), {})]
        except RuntimeError as ex:
            rule.violate(key, "cannot enumerate the loop's paths: %s" % ex, loc)
            continue
        rounds = 0
        for oc, w in paths_:
            if oc not in ("norm", "continue"):
                continue
            sets = [x for x in w if x[0] == "set" and x[2] in sib]
            pushes = [x for x in w if x[0] == "push" and x[1] in cvars]
            if sets:
                rounds += 1
                want = sib[sets[-1][2]]
                if len(pushes) != 1 or pushes[0][2] != want:
                    bad = "a round that matched does not push exactly the node it matched to the returned vector (%d pushes)" % len(pushes)
            elif pushes:
                bad = "a round that did not match pushes to the returned vector"
        if not cvars:
            bad = "the returned node's `content` is not a local vector"
        if not rounds and not bad:
            bad = "no round that carries a matched cursor on was found"
        if bad:
            rule.violate(key, bad, loc)
        else:
            rule.inst(key, loc, "ok", {"matched_rounds": rounds})
    return n_fns


def im_has_content(im):
    p, _ = im.self_adt()
    it = im.crate.item(p)
    if it is None or it.get("kind") != "Struct":
        return True
    fields = [f["name"] for v in it.get("variants", []) for f in v.get("fields", [])]
    return "content" in fields or not fields or any(f.isdigit() for f in fields)
