"""STORE — a container node keeps the node of every child that matched on the path it returns from.

Non-erased parse-twin trees: on every path to a success leaf, each MATCH(child) that succeeded outside a loop must occur as
`tree(event)` inside the returned node.  Exempt by design: look-ahead that discards its operand (Negative), rule structs that
emit only a span (atomic rules), and nodes that hold text instead of children (checked by R17-LEAF).
Registered under C16 (getters can only hand out what the content stores) and C17 (accessors reflect what was matched)."""
from .. import edt, classes

PN = "pest_typed::predefined_node::"
DISCARDS = (PN + "Negative",)


def paths(t, matched, in_loop):
    tag = t[0]
    if tag == "leaf":
        yield t, matched
    elif tag == "ev":
        yield from paths(t[3], matched, in_loop)
    elif tag == "fork":
        is_match = t[2][0] == "MATCH" and not in_loop
        yield from paths(t[3], matched + ([t[1]] if is_match else []), in_loop)
        yield from paths(t[4], matched, in_loop)
    elif tag == "opq":
        for _, sub in t[2]:
            yield from paths(sub, matched, in_loop)
    elif tag == "loop":
        yield from paths(t[4], matched, True)
        yield from paths(t[5], matched, in_loop)
    elif tag == "unm":
        yield from paths(t[2], matched, in_loop)


def store_rule(rule, world):
    n = 0
    for key, pid, cid, loc, im in world.twin_pairs():
        p, args = im.self_adt()
        if p in DISCARDS or "::unicode::" in key:
            continue
        if key.startswith("ParsableTypedNode for") or key.startswith("NeverFailedParsableTypedNode for"):
            continue      # full-parse wrappers match EOI only to test for it: its node is discarded by design (C04's rules)
        try:
            t = world.tree(pid, erase=False)
        except edt.Unsupported:
            continue
        bad = None
        n_paths = 0
        for leaf, matched in paths(t, [], False):
            if leaf[1] != "ret" or not (isinstance(leaf[2], tuple) and leaf[2] and leaf[2][0] == "some"):
                continue
            if not matched:
                continue
            n_paths += 1
            val = repr(leaf[2])
            for ev in matched:
                if "('pure', 'tree', (('ev', %d),))" % ev not in val:
                    bad = "a path on which child match e%d succeeded returns a node that does not contain it: %s" % (ev, edt.fmt_val(leaf[2])[:160])
                    break
            if bad:
                break
        if n_paths == 0:
            continue
        # span-only rule structs (atomic rules) keep no content by design: they have no `content` field
        if bad and not im_has_content(im):
            continue
        n += 1
        if bad:
            rule.violate(key, bad, loc, edt.fmt(t))
        else:
            rule.inst(key, loc, "ok", {"success_paths_with_children": n_paths})
    return n


def im_has_content(im):
    p, _ = im.self_adt()
    it = im.crate.item(p)
    if it is None or it.get("kind") != "Struct":
        return True
    fields = [f["name"] for v in it.get("variants", []) for f in v.get("fields", [])]
    return "content" in fields or not fields or any(f.isdigit() for f in fields)
