"""C02 — pair tree: which nodes contribute tokens (HIR walk over every Pairs / Pair impl)."""
from .. import facts, edt, nodes, classes
from ..hir import walk, strip_generics, pat_binds

PAIRS = "pest_typed::iterators::Pairs"
PAIR = "pest_typed::iterators::Pair"
FWD = "pest_typed::iterators::Pairs::for_self_or_each_child"
AS_TOKEN = "pest_typed::iterators::Pair::as_token"


class Fwd:
    """Ordered list of what a for_self_or_each_child body does: ('fwd', place) | ('emit', what) | ('callf', what)"""

    def __init__(self, crate, body, bound=None, depth=0):
        """bound: for an inlined helper, the caller's place of each parameter ('<f>' marks the callback)."""
        self.c = crate
        self.acts = []
        self.env = {}
        self.depth = depth
        self.fvar = None
        params = body["params"]
        names = []
        for p in params:
            for b in pat_binds(p):
                names.append(b)
        if bound is None:
            if names:
                self.env[names[0]["var"]] = "self"
                self.fvar = names[1]["var"] if len(names) > 1 else None
        else:
            for b, pl in zip(names, bound):
                if pl == "<f>":
                    self.fvar = b["var"]
                else:
                    self.env[b["var"]] = pl
        if self.fvar is not None:
            self.env[self.fvar] = "<f>"
        self.stmt(body["value"])

    def helper(self, base, args):
        """A crate-local function that is handed the callback: its forwarding acts, with its parameters bound to the caller's places."""
        if self.depth >= 3:
            return None
        places = [self.place(a) for a in args]
        if "<f>" not in places:
            return None
        b = self.c.body(base)
        if b is None or len(b.get("params", [])) != len(args):
            return None
        return Fwd(self.c, b, places, self.depth + 1).acts

    def place(self, e):
        k = e["k"]
        if k == "local":
            return self.env.get(e["var"], "?" + e.get("name", ""))
        if k == "field":
            return self.place(e["base"]) + "." + e["name"]
        if k in ("addr_of", "use", "cast"):
            return self.place(e["e"])
        if k == "unary" and e["op"] == "*":
            return self.place(e["e"])
        if k == "mcall":
            base = strip_generics(e["callee"]["path"]) if e.get("callee") else e["name"]
            r = self.place(e["recv"])
            nm = e["name"]
            if nm in ("iter", "into_iter", "iter_mut"):
                return r + "[*]"
            if nm in ("as_slice", "as_ref", "deref", "borrow", "as_deref"):
                # Box::as_ref / array::as_slice: same storage
                return r
            return r + "." + nm + "()"
        if k == "call" and e.get("callee") and e["args"]:
            nm = strip_generics(e["callee"]["path"]).rsplit("::", 1)[-1]
            if nm in ("as_ref", "deref", "borrow"):
                return self.place(e["args"][0])
            return nm + "(" + ",".join(self.place(a) for a in e["args"]) + ")"
        return "?"

    def bind_pat(self, p, base):
        k = p["k"]
        if k == "bind":
            self.env[p["var"]] = base
            if "sub" in p:
                self.bind_pat(p["sub"], base)
        elif k in ("ref", "deref"):
            self.bind_pat(p["p"], base)
        elif k == "tstruct":
            name = p["res"].get("path", "?").rsplit("::", 1)[-1]
            for i, sp in enumerate(p["ps"]):
                suffix = "?" if name == "Some" else "::%s" % name
                self.bind_pat(sp, base + suffix + ("" if len(p["ps"]) == 1 else ".%d" % i))
        elif k == "tuple":
            for i, sp in enumerate(p["ps"]):
                self.bind_pat(sp, base + ".%d" % i)
        elif k == "struct":
            for f in p["fields"]:
                self.bind_pat(f["p"], base + "." + f["name"])

    def stmt(self, e):
        k = e["k"]
        if k == "block":
            for st in e.get("stmts", []):
                if st["k"] == "let":
                    if "init" in st:
                        self.stmt(st["init"])
                        self.bind_pat(st["pat"], self.place(st["init"]))
                elif st["k"] == "expr":
                    self.stmt(st["e"])
            if "tail" in e:
                self.stmt(e["tail"])
            return
        if k in ("call", "mcall"):
            base = strip_generics(e["callee"]["path"]) if e.get("callee") else ""
            args = ([e["recv"]] if k == "mcall" else []) + list(e["args"])
            if base == FWD:
                self.acts.append(("fwd", self.place(args[0])))
                return
            if base.endswith("::for_each") and args and args[-1]["k"] == "closure":
                clo = args[-1]
                src = self.place(args[0])
                for p in clo["params"]:
                    self.bind_pat(p, src)
                self.stmt(clo["body"])
                return
            if base in ("core::ops::function::FnMut::call_mut", "core::ops::function::FnOnce::call_once", "core::ops::function::Fn::call") or \
                    (k == "call" and e["f"]["k"] == "local" and e["f"].get("var") == self.fvar):
                inner = e["args"][0] if e["args"] else None
                what = "?"
                if inner is not None:
                    # f((token,)) — arguments come as a tuple for overloaded calls
                    if inner["k"] == "tuple" and inner["es"]:
                        inner = inner["es"][0]
                    if inner["k"] == "call" and inner.get("callee") and strip_generics(inner["callee"]["path"]) == AS_TOKEN:
                        what = "as_token(%s)" % self.place(inner["args"][0])
                    else:
                        what = self.place(inner)
                self.acts.append(("emit", what))
                return
            sub = self.helper(base, args) if base else None
            if sub is not None:
                self.acts.extend(sub)
                return
            for a in args:
                self.stmt(a)
            return
        if k == "match" and e.get("src") == "for" and e["scrut"].get("args"):
            # `for x in it { body }`  ==  `it.for_each(|x| body)`: x ranges over the elements of `it` in order
            src = self.place(e["scrut"]["args"][0])
            if not src.endswith("[*]"):
                src += "[*]"
            body = None
            for m in walk(e["arms"][0]["body"]):
                if m["k"] == "match" and m.get("src") == "for":
                    for arm in m["arms"]:
                        ap = arm["pat"]
                        sub = None
                        if ap["k"] == "tstruct" and ap.get("ps"):
                            sub = ap["ps"][0]
                        elif ap["k"] == "struct" and ap["res"].get("path", "").endswith("Option::Some") and ap.get("fields"):
                            sub = ap["fields"][0]["p"]
                        if sub is not None:
                            self.bind_pat(sub, src)
                            body = arm["body"]
                    break
            if body is not None:
                self.stmt(body)
                return
        if k == "match":
            base = self.place(e["scrut"])
            self.stmt(e["scrut"])
            arms = []
            for arm in e["arms"]:
                saved = list(self.acts)
                self.acts = []
                self.bind_pat(arm["pat"], base)
                self.stmt(arm["body"])
                name = arm["pat"].get("res", {}).get("path", "_").rsplit("::", 1)[-1] if arm["pat"]["k"] in ("tstruct", "expr", "struct") else "_"
                arms.append((name, self.acts))
                self.acts = saved
            if sorted(n for n, _ in arms) == ["None", "Some"]:
                # `match o { Some(x) => A, None => B }` is `if let Some(x) = o { A } else { B }`
                d = dict(arms)
                self.acts.append(("iflet", base, "Some", tuple(d["Some"]), tuple(d["None"])))
                return
            self.acts.append(("match", base, tuple((n, tuple(a)) for n, a in arms)))
            return
        if k == "if":
            c = e["cond"]
            if c["k"] == "let_cond":
                base = self.place(c["init"])
                self.bind_pat(c["pat"], base)
                saved = list(self.acts)
                self.acts = []
                self.stmt(e["then"])
                then = tuple(self.acts)
                self.acts = []
                if "else" in e:
                    self.stmt(e["else"])
                els = tuple(self.acts)
                self.acts = saved
                self.acts.append(("iflet", base, self_label(c["pat"]), then, els))
                return
            # a plain condition: what happens under it is conditional (an early `return` before the forwarding hides children)
            saved = list(self.acts)
            self.acts = []
            self.stmt(e["then"])
            then = tuple(self.acts)
            self.acts = []
            if "else" in e:
                self.stmt(e["else"])
            els = tuple(self.acts)
            self.acts = saved
            if then or els:
                from .. import inv as _inv
                _inv._LETS = {}
                self.acts.append(("if", _inv.short_descr(self.c, c) if hasattr(self, "c") else "?", then, els))
            return
        if k == "ret":
            self.acts.append(("ret",))
            return
        if k == "closure":
            return
        for key in ("e", "l", "r", "base", "recv"):
            if isinstance(e.get(key), dict) and "k" in e[key]:
                self.stmt(e[key])


def self_label(p):
    if p["k"] == "tstruct":
        return p["res"].get("path", "?").rsplit("::", 1)[-1]
    return "_"


def type_params_in(crate, tdict, params):
    """names of generic type params mentioned in a type (PhantomData excluded)"""
    out = []
    k = tdict["k"]
    if k == "param":
        if tdict["name"] in params:
            out.append(tdict["name"])
    elif k == "adt":
        if tdict["path"].endswith("marker::PhantomData"):
            return out
        for a in tdict.get("args", []):
            if "t" in a:
                out += type_params_in(crate, crate.types[a["t"]], params)
    elif k == "ref":
        out += type_params_in(crate, crate.types[tdict["inner"]], params)
    elif k == "tuple":
        for x in tdict["elems"]:
            out += type_params_in(crate, crate.types[x], params)
    elif k in ("array", "slice"):
        out += type_params_in(crate, crate.types[tdict["elem"]], params)
    return out


def expected_struct(crate, adt_item):
    """Ordered list of forwardable places for a struct: fields mentioning a type parameter."""
    params = [g["name"] for g in adt_item.get("generics", []) if g["kind"] == "type"]
    out = []
    v = adt_item["variants"][0]
    for f in v["fields"]:
        t = crate.types[f["ty"]]
        if not type_params_in(crate, t, params):
            continue
        if t["k"] == "tuple":
            for i in range(len(t["elems"])):
                out.append("self.%s.%d" % (f["name"], i))
        elif t["k"] in ("array", "slice") or (t["k"] == "adt" and t["path"].endswith("vec::Vec")):
            out.append("self.%s[*]" % f["name"])
        else:
            out.append("self." + f["name"])
    return out


def norm_place(p):
    return p


def run(ctx):
    fs = facts.load("core", "fx_macros")
    world = nodes.World(fs, ["pest_typed", "fx_macros"])
    ctx.analysed = {"crates": ["pest_typed", "fx_macros"]}
    rf = ctx.rule("R02-FWD", "containers forward every child-bearing field exactly once, in declaration order (Skipped: skipped before matched; "
                             "SeqN: tuple indices ascending and complete; ChoiceN: each variant its own payload)")
    rl = ctx.rule("R02-LOOKAHEAD", "positive / negative look-ahead (classes POS / NEG) contribute no tokens")
    rr = ctx.rule("R02-RULE", "rule structs: silent rules forward their content; others emit exactly themselves; atomic rules report no "
                              "children; as_token / to_thin copy rule, span, children")
    # class of each type with a TypedNode impl (for LOOKAHEAD)
    cls_of = {}
    for key, pid, cid, loc, im in world.twin_pairs():
        if im.trait == nodes.TN_TRAIT and "::unicode::" not in key:
            cls_of[im.self_adt()[0]] = classes.classify(world.tree(cid))["cls"]
    n_empty = n_seq = n_choice = 0
    for c in world.crates:
        for it in c.impls():
            if it.get("trait") != PAIRS:
                continue
            im = nodes.Impl(c, it)
            fid = im.methods.get("for_self_or_each_child")
            body = c.body(fid) if fid else None
            key = im.key()
            if body is None:
                rf.violate(key, "no body for for_self_or_each_child", im.loc)
                continue
            acts = Fwd(c, body).acts
            path, args = im.self_adt()
            adt = None
            for cc in world.crates + [fs["pest_typed"]]:
                if cc.item(path) and cc.item(path)["kind"] in ("Struct", "Enum"):
                    adt = (cc, cc.item(path))
                    break
            is_rule_struct = path.startswith("fx_macros::") and "::arity13::" not in path
            if is_rule_struct:
                name = path.rsplit("::", 1)[-1]
                silent = name in ("S", "S2")
                if silent:
                    ok = acts == [("fwd", "self.content")]
                    why = "silent rule does not forward exactly its content"
                else:
                    ok = acts == [("emit", "as_token(self)")]
                    why = "non-silent rule does not emit exactly one token built from itself"
                (rr.inst(key, im.loc, "ok", {"acts": acts}) if ok else rr.violate(key, why + ": %s" % (acts,), im.loc))
                continue
            cls = cls_of.get(path)
            if cls in ("POS", "NEG"):
                if acts:
                    rl.violate(key, "look-ahead node contributes tokens: %s" % (acts,), im.loc)
                else:
                    rl.inst(key, im.loc, "ok", {"class": cls})
                continue
            if adt is not None and adt[1]["kind"] == "Enum":
                vs = adt[1]["variants"]
                want = ("match", "self", tuple((v["name"], (("fwd", "self::%s" % v["name"]),)) for v in vs))
                if acts == [want]:
                    n_choice += 1
                    rf.inst(key, im.loc, "ok", {"variants": len(vs)})
                else:
                    rf.violate(key, "each variant must forward exactly its own payload", im.loc, repr(acts))
                continue
            if adt is not None:
                want = expected_struct(adt[0], adt[1])
                got = [a[1] for a in acts if a[0] == "fwd"]
                other = [a for a in acts if a[0] != "fwd"]
                # a field holding an array/Vec may be forwarded as a whole (delegating to the container impl) or element-wise
                got_n = [g[:-3] if g.endswith("[*]") else g for g in got]
                want_n = [w[:-3] if w.endswith("[*]") else w for w in want]
                if got_n == want_n and not other:
                    if want:
                        n_seq += 1
                    else:
                        n_empty += 1
                    rf.inst(key, im.loc, "ok", {"forwards": got}, nontrivial=bool(want) or "unicode" not in key)
                else:
                    rf.violate(key, "forwards %s, the type's child-bearing fields in declaration order are %s" % (got + other, want), im.loc)
                continue
            # built-in containers: tuple, array, Box, Option
            want = None
            if path == "tuple":
                want = [("fwd", "self.%d" % i) for i in range(len(args))]
            elif path == "array":
                want = [("fwd", "self[*]")]
            elif path.endswith("boxed::Box"):
                want = [("fwd", "self")]
            elif path.endswith("option::Option"):
                want = [("iflet", "self", "Some", (("fwd", "self?"),), ())]
            if want is not None and acts == want:
                rf.inst(key, im.loc, "ok", {"forwards": acts})
            else:
                rf.violate(key, "container does not forward exactly its elements in order: %s (expected %s)" % (acts, want), im.loc)
    rf.note("empty leaves: %d, field-forwarding structs: %d, choices: %d" % (n_empty, n_seq, n_choice))
    rf.require(300, "Pairs impls")
    rl.require(2, "look-ahead impls")
    # Pair impls of rule structs
    fx = fs["fx_macros"]
    for it in fx.impls():
        if it.get("trait") != PAIR:
            continue
        im = nodes.Impl(fx, it)
        fid = im.methods.get("for_each_child")
        name = im.self_adt()[0].rsplit("::", 1)[-1]
        acts = Fwd(fx, fx.body(fid)).acts
        atomic = name in ("A", "CA", "A2", "CA2", "EOI")
        want = [] if atomic else [("fwd", "self.content")]
        if acts == want:
            rr.inst(im.key(), im.loc, "ok", {"children": acts})
        else:
            rr.violate(im.key(), "%s rule reports children %s, expected %s" % ("(compound-)atomic" if atomic else "non-atomic", acts, want), im.loc)
    # as_token / to_thin / as_thin_token / children / self_or_children (default methods) in pest_typed: compared as resolved terms
    from . import c15
    c15.token_rules(rr, fs["pest_typed"])
    rr.require(20, "rule-struct instances")
    # tokens come from the nodes a container stored: a matched child that is not stored contributes nothing (seed C02-6)
    from . import store
    rst = ctx.rule("R02-STORE", "container nodes return, on every path, a node that contains the node of each child that matched on that path "
                                "(the token tree is built from the stored nodes)")
    store.store_rule(rst, world)
    rst.require(30, "container functions")
    # (compound-)atomic rules, predicates and `try_check*` run the check twins, and an atomic rule's own span is the cursor its check
    # twin returns: the tokens carry pest's spans only if the check twin of every node consumes what its parse twin consumes
    # (seed C02-8: NEWLINE's check twin tried "\r" before "\r\n" — an atomic line token ended inside the CRLF)
    from . import c03
    rtw = ctx.rule("R02-TWIN", "the check twin of every TypedNode of pest_typed has the effect tree of its parse twin (C03's instances): "
                               "spans computed through check twins are the spans the parse twins would give")
    c03.twin_rule(ctx, world, rtw, lambda im: im.crate.name == "pest_typed" and im.trait == nodes.TN_TRAIT)
    rtw.require(100, "twin pairs")
    kind_rule(ctx)
    skip_tokens_rule(ctx)
    ctx.assume("equality with pest's tree on inputs and span values are not decided; this decides which nodes contribute tokens and in what order")
    ctx.explanation = ("Every impl of Pairs and Pair in pest_typed and in the macro fixture is walked (typed HIR, calls resolved): the ordered "
                       "list of forwarded places is compared with the child-bearing fields of the type in declaration order; look-ahead types "
                       "(classified by their effect trees, not by name) must forward nothing; rule structs emit themselves or forward content.")


def kind_rule(ctx):
    """What the *generated* rule structs contribute, per rule kind, for both generator back-ends (seed C02-7: the raw back-end's
    kind table gave silent rules Emission::Both)."""
    from .. import tt
    r = ctx.rule("R02-KIND", "derive output, every rule kind under both generators (fx_kinds2: optimizer on, fx_kinds2r: pest_optimizer = false): "
                             "a silent rule forwards its content and has no Pair impl; every other rule emits exactly itself; atomic and "
                             "compound-atomic rules report no children, normal and non-atomic ones their content")
    units = ["fx_kinds2", "fx_kinds2r"] + (["fx_kinds3", "fx_kinds3r"] if ctx.tier == "thorough" else [])
    for unit in units:
        try:
            fxc = facts.load(unit)[unit]
        except facts.BuildFailed as ex:
            r.violate(unit, "fixture does not build: %s" % str(ex)[:200])
            continue
        ex = tt.load_expect(unit)
        for mod, info in sorted(ex["modules"].items()):
            fx = tt.Fixture(fxc, unit + "::" + mod)
            for rname, kind in sorted(info["rules"].items()):
                key = "%s:%s::%s (%s)" % ("raw" if unit.endswith("r") else "opt", mod, rname, kind)
                ps = fx.impl_item(PAIRS, rname)
                pr = fx.impl_item(PAIR, rname)
                loc = fxc.loc(fx.rules[rname].get("sp")) if rname in fx.rules else None
                if ps is None:
                    r.violate(key, "no Pairs impl for the generated rule struct", loc)
                    continue
                acts = Fwd(fxc, fxc.body(nodes.Impl(fxc, ps).methods["for_self_or_each_child"])).acts
                bad = None
                if kind == "S":
                    if acts != [("fwd", "self.content")]:
                        bad = "a silent rule contributes %s, expected its content's tokens only" % acts
                    elif pr is not None:
                        bad = "a silent rule has a Pair impl (it would be a token of its own)"
                else:
                    if acts != [("emit", "as_token(self)")]:
                        bad = "a %s rule contributes %s, expected exactly itself" % (kind, acts)
                    elif pr is None:
                        bad = "a non-silent rule has no Pair impl"
                    else:
                        ch = Fwd(fxc, fxc.body(nodes.Impl(fxc, pr).methods["for_each_child"])).acts
                        want = [] if kind in ("A", "C") else [("fwd", "self.content")]
                        if ch != want:
                            bad = "children of a %s rule are %s, expected %s" % (kind, ch, want)
                (r.violate(key, bad, loc) if bad else r.inst(key, loc, "ok", {"kind": kind}))
    r.require(200, "generated rule structs")


def skip_tokens_rule(ctx):
    """R02-SKIPTOK: pest matches WHITESPACE / COMMENT under Atomicity::Atomic, where inner rules produce no tokens; so a skip
    contributes at most the WHITESPACE / COMMENT token itself (when not silent), without children."""
    from .. import tt
    fs = facts.load("core", "fx_skiptok")
    fxc = fs["fx_skiptok"]
    ex = tt.load_expect("fx_skiptok")
    r = ctx.rule("R02-SKIPTOK", "an implicit skip contributes no token other than a non-silent WHITESPACE / COMMENT itself, and that token has no children "
                                "(pest matches skip rules atomically: rules they reference are silent there)")
    kinds = {"N": "normal", "S": "silent", "A": "atomic", "C": "compound-atomic", "X": "non-atomic"}
    for mod, info in sorted(ex["modules"].items()):
        fx = tt.Fixture(fxc, "fx_skiptok::" + mod)
        name = info["skip_rule"]
        kind = info["kind"]
        t = fx.inner_type(name)
        refs = set()
        if t is not None:
            def collect(td):
                if td["k"] == "adt":
                    if fx.is_rule_path(td["path"]):
                        refs.add(td["path"].rsplit("::", 1)[-1])
                        return
                    for a in td.get("args", []):
                        if "t" in a:
                            collect(fxc.types[a["t"]])
                elif td["k"] == "tuple":
                    for e in td["elems"]:
                        collect(fxc.types[e])
            collect(t)
        pairs = fx.impl_item(PAIRS, name)
        pair = fx.impl_item(PAIR, name)
        emits = Fwd(fxc, fxc.body(nodes.Impl(fxc, pairs).methods["for_self_or_each_child"])).acts if pairs else None
        child = Fwd(fxc, fxc.body(nodes.Impl(fxc, pair).methods["for_each_child"])).acts if pair else []
        key = "skip rule of kind %s (%s)" % (kind, kinds[kind])
        loc = fxc.loc(fx.rules[name].get("sp")) if name in fx.rules else None
        leaks = []
        if emits and emits != [("emit", "as_token(self)")] and refs:
            leaks.append("as a skip it forwards the tokens of %s" % sorted(refs))
        if child and refs:
            leaks.append("its own token reports %s as children" % sorted(refs))
        if leaks:
            r.violate(key, "%s = %s{..} referencing other rules: %s; pest produces no such tokens" % (name, {"N": "", "S": "_", "A": "@", "C": "$", "X": "!"}[kind], "; ".join(leaks)), loc)
        else:
            r.inst(key + " [%s]" % name, loc, "ok", {"emits": emits, "children": child})
    r.require(2, "skip-rule kinds")
    # the skip rules are instantiated atomically in the skip type (pest runs them under Atomicity::Atomic): const 0
    ra = ctx.rule("R02-SKIPATOMIC", "generics::Skipped instantiates WHITESPACE / COMMENT with the atomic constant 0, so a skip token is never split or nested by "
                                    "skipping inside the skip rule itself")
    import re as _re
    for mod, info in sorted(ex["modules"].items()):
        al = fxc.item("fx_skiptok::%s::generics::Skipped" % mod)
        if al is None or "alias_of" not in al:
            ra.violate(mod, "generics::Skipped alias missing")
            continue
        s = fxc.tys(al["alias_of"])
        uses = _re.findall(r"rules::(WHITESPACE|COMMENT)<([^<>]*)>", s)
        bad = [(n, a) for n, a in uses if not _re.search(r",\s*0\s*$", a)]
        key = "Skipped alias when %s is defined%s" % (info["skip_rule"], " (with WHITESPACE)" if info["skip_rule"] == "COMMENT" else " alone")
        if bad or not uses:
            ra.violate(key, "skip type is %s: %s not instantiated with the atomic constant 0" % (s.replace("fx_skiptok::%s::rules_impl::" % mod, ""), [b[0] for b in bad] or "skip rules"), fxc.loc(al.get("sp")))
        else:
            ra.inst(key + " [%s]" % mod, fxc.loc(al.get("sp")), "ok", {"skip": s.replace("fx_skiptok::%s::rules_impl::" % mod, "")})
    ra.require(10, "grammars")
