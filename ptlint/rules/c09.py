"""C09 — total, offsets on boundaries (partial): unsafe inventory, build-profile equality, panic inventory."""
from .. import facts, inv, snf
from ..hir import walk, strip_generics

BASE = "pest_typed::typed_node::ParsableTypedNode::"
ENTRIES = [BASE + m for m in ("try_parse", "try_check", "try_parse_partial", "try_check_partial")] + [
    "pest_typed::TypedParser::try_parse", "pest_typed::TypedParser::try_check", "pest_typed::TypedParser::parse",
    "pest_typed::typed_node::NeverFailedParsableTypedNode::parse",
    "pest_typed::typed_node::NeverFailedParsableTypedNode::parse_partial",
    "pest_typed::tracker::Tracker::<'i, R>::collect"]
UNSAFE_FNS = {
    "pest_typed::input::Input::cursor",
    "<pest_typed::position::Position<'i> as pest_typed::input::Input<'i>>::cursor",
    "<pest_typed::input::SubInput1<'i> as pest_typed::input::Input<'i>>::cursor",
    "<pest_typed::input::SubInput2<'i> as pest_typed::input::Input<'i>>::cursor",
    "pest_typed::position::Position::<'i>::new_unchecked",
    "pest_typed::span::Span::<'i>::new_unchecked",
}


def run(ctx):
    fs = facts.load("core", "rel", "fx_macros")
    c = fs["pest_typed"]
    rel = fs["pest_typed.rel"]
    fx = fs["fx_macros"]
    g = inv.CallGraph([c, fx])
    ctx.analysed = {"crates": ["pest_typed (debug)", "pest_typed (debug assertions off)", "fx_macros"], "entries": ENTRIES}

    # ---- unsafe inventory
    ru = ctx.rule("R09-UNSAFE", "every unsafe block (cursor write, unchecked slice, unchecked constructor) matches a reviewed discharge entry keyed by "
                                "its full expression and dominating guards; the set of unsafe fns is the known one; cursor() is only called from Input's own methods")
    table = inv.load_table("discharge_unsafe.json")
    used = set()
    n_blocks = 0
    for crate, tag in ((c, ""), (rel, " [release]")):
        for fid in sorted(crate.bodies):
            if "::tests::" in fid:
                continue
            b = crate.body(fid)
            for s in inv.keyed(list(inv.sites(crate, fid, b, {"unsafe"})), fid):
                n_blocks += 1
                if s["key"] in table:
                    used.add(s["key"])
                    ru.inst(s["key"] + tag, s["loc"], "discharged", table[s["key"]])
                else:
                    ru.violate(s["key"] + tag, "unsafe block without a matching discharge entry (new, or its expression / guard changed)", s["loc"])
    for it in c.fns():
        if it.get("unsafe") and "::tests::" not in it["id"]:
            if it["id"] in UNSAFE_FNS:
                ru.inst("unsafe fn " + it["id"], c.loc(it.get("sp")), "known", nontrivial=False)
            else:
                ru.violate("unsafe fn " + it["id"], "new unsafe fn: its callers' obligations are not reviewed", c.loc(it.get("sp")))
        if it["id"] in ("pest_typed::position::Position::<'i>::new_unchecked", "pest_typed::span::Span::<'i>::new_unchecked") and it.get("vis") == "pub":
            ru.violate("vis " + it["id"], "unchecked constructor is public: callers outside the crate could break the boundary invariant", c.loc(it.get("sp")))
    # who-may-call cursor()
    for fid in sorted(c.bodies):
        if "::tests::" in fid:
            continue
        for n in walk(c.body(fid)["value"]):
            cal = n.get("callee")
            if cal and strip_generics(cal["path"]) == "pest_typed::input::Input::cursor":
                if fid.startswith("pest_typed::input::Input::") or " as pest_typed::input::Input<" in fid:
                    ru.inst("cursor() called in " + fid, c.loc(n.get("sp")), "ok", nontrivial=False)
                else:
                    ru.violate("cursor() called in " + fid, "the raw cursor is written outside Input's own methods", c.loc(n.get("sp")))
    stale = sorted(k for k in table if k not in used)
    if stale:
        ru.note("stale discharge entries (site gone; not an error): %s" % stale)
    ru.require(30, "unsafe sites")

    # ---- profile
    rp = ctx.rule("R09-PROFILE", "debug and release builds compile the same program: every function's normal form is equal between the two "
                                 "profiles once cfg!(debug_assertions) literals and debug_assert* are set aside (get()'s two arms slice the same range: R08-GET)")
    cfg_hook = None
    n_eq = 0
    for fid in sorted(c.bodies):
        if "::tests::" in fid:
            continue
        a = c.body(fid)
        b = rel.body(fid)
        if b is None:
            rp.violate(fid, "function exists only in the debug build", c.loc(a["value"].get("sp")))
            continue
        na = CfgNorm(c).body(a)
        nb = CfgNorm(rel).body(b)
        if na == nb:
            n_eq += 1
            rp.inst(fid, None, "ok", nontrivial=("cfg" in repr(na.t) or has_cfg(na)))
        else:
            d = snf.first_diff(na, nb)
            rp.violate(fid, "body differs between debug and release builds beyond cfg!(debug_assertions)", d[0].loc,
                       "debug:   %s\nrelease: %s" % (d[0].show(), d[1].show()))
    for fid in rel.bodies:
        if fid not in c.bodies and "::tests::" not in fid:
            rp.violate(fid, "function exists only in the release build", None)
    # explicit profile switches: `if cfg!(debug_assertions)` outside debug_assert* may only be the checked/unchecked slicing in get()
    for fid in sorted(c.bodies):
        if "::tests::" in fid:
            continue
        for n in walk(c.body(fid)["value"]):
            if n["k"] == "if" and n["cond"]["k"] == "lit" and "cfg" in c.macros(n["cond"]):
                if any(m.startswith("debug_assert") for m in c.macros(n["cond"])):
                    continue
                key = "cfg!-switch in " + fid
                if fid.endswith("::get") and " as pest_typed::input::Input<" in fid:
                    rp.inst(key, c.src_loc(n), "ok: checked vs unchecked slicing of one range (R08-GET compares the two ranges)")
                else:
                    rp.violate(key, "code selected by cfg!(debug_assertions): debug and release builds run different code here "
                                    "(the test-suite only ever runs one of them)", c.src_loc(n))
    rp.note("%d functions compared" % n_eq)
    rp.require(3000, "functions")
    if ctx.tier == "thorough":
        # the no_std build (default features off), both profiles: same program as the std build
        rf = ctx.rule("R09-FEATURES", "thorough: every function of the no_std build (--no-default-features), debug and release, has the same "
                      "normal form as in the default build: nothing on the parse path is selected by a feature")
        fs2 = facts.load("nostd")
        for tag in ("pest_typed.nostd", "pest_typed.nostd.rel"):
            other = fs2.get(tag)
            if other is None:
                rf.violate(tag, "no facts for this build")
                continue
            n_ok = 0
            for fid in sorted(c.bodies):
                if "::tests::" in fid:
                    continue
                ob = other.body(fid)
                if ob is None:
                    rf.violate("%s: %s" % (tag, fid), "function missing in the no_std build", c.loc(c.body(fid)["value"].get("sp")))
                    continue
                na = CfgNorm(c).body(c.body(fid))
                nb = CfgNorm(other).body(ob)
                if na == nb:
                    n_ok += 1
                else:
                    d = snf.first_diff(na, nb)
                    rf.violate("%s: %s" % (tag, fid), "body differs between the default and the no_std build", d[0].loc,
                               "default: %s\nno_std:  %s" % (d[0].show(), d[1].show()))
            rf.inst(tag, None, "ok", {"functions_equal": n_ok})
        rf.require(2, "builds")

    # ---- panic inventory
    rpn = ctx.rule("R09-PANIC", "every panic-capable site, debug assertion and raw usize subtraction reachable from the parse / check entry "
                                "points and from Tracker::collect is discharged by a reviewed reason")
    t1 = inv.load_table("discharge_c09.json")
    t2 = inv.load_table("discharge_c14.json")
    reach = g.reachable(ENTRIES)
    used = set()
    for e in ENTRIES:
        if e not in g.bodies:
            rpn.violate(e, "entry point no longer exists (anchor lost)")
    for fid in sorted(reach):
        if "::tests::" in fid:
            continue
        crate = g.crate_of[fid]
        for s in inv.keyed(list(inv.sites(crate, fid, g.bodies[fid], {"panic", "usub", "div", "debug"})), fid):
            r = t1.get(s["key"]) or t2.get(s["key"])
            if r:
                used.add(s["key"])
                rpn.inst(s["key"], s["loc"], "discharged", r)
            else:
                path = g.path_to(ENTRIES, fid) or [fid]
                rpn.violate(s["key"], "undischarged %s site reachable from a parse entry point (%s)" % (
                    s["kind"], " -> ".join(p.rsplit("::", 1)[-1] for p in path[-4:])), s["loc"])
    stale = sorted(k for k in t1 if k not in used)
    if stale:
        rpn.note("stale discharge entries (site gone; not an error): %s" % stale)
    rpn.note("%d functions reachable (trait dispatch resolved conservatively to every impl in pest_typed + fx_macros)" % len(reach))
    # anchors: the entry points exist (above) and reach the bulk of the runtime; the site floor is deliberately about half of
    # today's 28 so that a rewrite which removes panic-capable sites does not raise an alarm
    if len(reach) < 1000:
        rpn.violate("<reach>", "only %d functions reachable from the parse entry points (1383 on the pinned tree): call graph lost its anchors" % len(reach))
    rpn.require(14, "sites")
    # the unchecked slices of the Span input rest on Span's invariant (start <= end <= len, both on character boundaries), which
    # only the safe constructors establish: Span::new / Span::get / Position::new / Position::span must validate what pest's
    # validate (seed C09-8: Span::get checked its range against the whole string, not the span's text)
    from . import c12_c13
    rsv = ctx.rule("R09-SPANS", "the safe constructors of Span and Position are pest's (sibling normal-form equality): every Span handed to the "
                                "parser satisfies the invariant the unchecked slices rely on")
    c12_c13.compare_pairs(ctx, rsv, facts.load("core"), ["span::Span::<'i>::new", "span::Span::<'i>::get", "position::Position::<'i>::new",
                                                          "position::Position::<'i>::span", "span::Span::<'i>::new_unchecked",
                                                          "position::Position::<'i>::new_unchecked"])
    rsv.require(6, "constructors")
    # building the error of a failed parse slices the line of the failure position: line_of / line_col / find_line_* must cut on
    # character boundaries as pest's do (seed C12-8: a truncating newline test made line_of slice inside a character)
    rln = ctx.rule("R09-LINES", "the line helpers the error report slices with are pest's (C12's instances)")
    c12_c13.compare_pairs(ctx, rln, facts.load("core"), ["position::Position::<'i>::line_col", "position::Position::<'i>::line_of", "position::Position::<'i>::find_line_start", "position::Position::<'i>::find_line_end"])
    rln.require(4, "helpers")
    ctx.assume("panic-freedom as such is not decided: the discharge reasons are reviewed arguments (tables/*.json), several rest on the "
               "cursor invariant (char boundary, within start..end) which follows from the R09-UNSAFE entries only informally")
    ctx.assume("calls into pest, core, alloc, unicode-width are trusted not to panic on valid arguments")
    ctx.explanation = ("Inventory rules: (1) every unsafe block of pest_typed, in both build profiles, is matched by exact key — full expression "
                       "with locals resolved plus dominating guards — against a reviewed table (a changed guard or operand is a new key); "
                       "(2) all function bodies are normal-form equal between the debug and the release profile modulo cfg!(debug_assertions); "
                       "(3) every panic-capable / debug-assert / usize-subtraction site reachable in the call graph from the entry points is "
                       "discharged by exact key.")


def has_cfg(n):
    if n.t and n.t[0] == "cfg":
        return True
    return any(has_cfg(k) for k in n.kids)


class CfgNorm(snf.Normalizer):
    """Normalizer that turns the literal produced by cfg!(..) into a token."""

    def __init__(self, crate):
        snf.Normalizer.__init__(self, crate)

    def expr(self, e):
        if e["k"] == "lit" and "cfg" in self.c.macros(e):
            return snf.N(("cfg",), (), self.loc(e))
        return snf.Normalizer.expr(self, e)
