"""C20 — options change representation only, generation is deterministic (partial)."""
import os
import re

from .. import facts, nodes, tt, gensib, inv, classes
from ..hir import walk, strip_generics
from .c01 import flatten

NONDET_TYPES = ("std::collections::hash::map::", "std::collections::hash::set::", "hashbrown::")
ITER_METHODS = ("iter", "iter_mut", "into_iter", "keys", "values", "values_mut", "drain", "into_keys", "into_values", "retain", "extend")
ENV_OK = {"pest_typed_generator::helper::collect_data", "pest_typed_generator::generator::generate_include"}


def rustc_errors(fs, unit):
    d = fs.dirs.get(unit)
    p = os.path.join(d, "rustc_errors.txt") if d else None
    if p and os.path.isfile(p):
        with open(p) as fh:
            return fh.read()
    return None


def error_keys(text):
    """(code, message) pairs, paths and line numbers removed"""
    out = []
    for m in re.finditer(r"^error(\[E\d+\])?: (.*)$", text, re.M):
        msg = m.group(2)
        if msg.startswith("could not compile") or msg.startswith("aborting"):
            continue
        out.append(((m.group(1) or "").strip("[]"), msg))
    return sorted(set(out))


def rule_facts(ct, fx, world, unit_crate):
    """Per rule of a derive module: flattened class tree, skip/ref constants, emission, wrapper skipping."""
    out = {}
    for r, it in fx.rules.items():
        t = fx.inner_type(r)
        if t is None:
            continue
        sk = []
        tree = flatten(ct.tree(fx, t, sk))
        fields = sorted(f["name"] for f in it["variants"][0]["fields"] if f["name"] in ("content", "span"))
        boxed = any(f["name"] == "content" and unit_crate.tys(f["ty"]).startswith("alloc::boxed::Box<") for f in it["variants"][0]["fields"])
        ks = sorted(set((s[0], s[1] if s[0] == "skip" else s[2]) for s in sk))
        out[r] = {"tree": tree, "consts": ks, "fields": fields, "boxed": boxed}
    return out


def det_findings(gen, env_ok):
    """(category, key, message, loc) for every construct that can make the generator's output differ between runs."""
    out = []
    n_calls = 0
    for fid in sorted(gen.bodies):
        if "::tests::" in fid:
            continue
        for n in walk(gen.body(fid)["value"]):
            cal = n.get("callee")
            if not cal:
                continue
            n_calls += 1
            p = strip_generics(cal["path"])
            nm = p.rsplit("::", 1)[-1]
            recv_ty = ""
            if n["k"] == "mcall" and n["recv"].get("ty") is not None:
                recv_ty = gen.tys(n["recv"]["ty"])
            if any(t in p or t in recv_ty for t in NONDET_TYPES) and nm in ITER_METHODS:
                out.append(("hash-iter-call", "hash iteration in " + fid, "iterates a HashMap/HashSet (%s): emitted token order may differ between runs" % p, gen.src_loc(n)))
            if p.startswith(("std::time::", "std::thread::", "rand::", "std::process::id")):
                out.append(("clock", "nondeterministic call in " + fid, "call to %s" % p, gen.src_loc(n)))
            if p.startswith("std::env::") and fid not in env_ok:
                out.append(("env", "env access in " + fid, "call to %s outside the path-collection helpers" % p, gen.src_loc(n)))
        for n in walk(gen.body(fid)["value"]):
            if n["k"] == "match" and n.get("src") == "for":
                it = n["scrut"]["args"][0] if n["scrut"].get("args") else None
                ty = gen.tys(it.get("ty")) if it is not None and it.get("ty") is not None else ""
                if any(t in ty for t in NONDET_TYPES):
                    out.append(("hash-iter-for", "hash iteration in " + fid, "`for` over %s" % ty[:80], gen.src_loc(n)))
    for it in gen.item_list:
        if it["kind"].startswith("Static") and "::tests::" not in it["id"]:
            out.append(("static", "static " + it["id"], "static item in the generator: output may depend on earlier expansions", gen.loc(it.get("sp"))))
    return out, n_calls


def run(ctx):
    thorough = ctx.tier == "thorough"
    optunit = "fx_options" if thorough else "fx_options_q"
    units = ["core", "fx_ops", "fx_rawrep", "fx_boxing", optunit]
    fs = facts.load(*units)
    gen = fs["pest_typed_generator"]
    world = nodes.World(fs, ["pest_typed"])
    ctx.analysed = {"crates": ["pest_typed_generator", "fx_ops", "fx_rawrep", "fx_boxing", optunit]}

    # ---- determinism
    rd = ctx.rule("R20-DET", "the generator never iterates a hash-ordered collection, and touches clock / thread / environment only where paths are read")
    findings, n_calls = det_findings(gen, ENV_OK)
    for cat, key, msg, loc in findings:
        rd.violate(key, msg, loc)
    # positive control: each scanner must fire on the construct it exists to find (fixtures/fx_controls)
    try:
        ctl = facts.load("fx_controls")["fx_controls"]
        got = {cat for cat, _, _, _ in det_findings(ctl, ())[0]}
        for cat in ("hash-iter-call", "hash-iter-for", "clock", "env", "static"):
            if cat in got:
                rd.inst("control: " + cat, None, "scanner fires on fixtures/fx_controls", nontrivial=False)
            else:
                rd.violate("control: " + cat, "the %s scanner does not fire on its positive control (fixtures/fx_controls): its silence on the generator is no evidence" % cat)
    except facts.BuildFailed as ex:
        rd.violate("control", "fixtures/fx_controls does not build: %s" % str(ex)[:200])
    rd.inst("pest_typed_generator: %d resolved calls scanned" % n_calls, None, "ok", {"hash_typed_values": sum(1 for t in gen.types if any(x in t["s"] for x in NONDET_TYPES))})
    rd.require(6, "scan + controls")

    # ---- sibling generators
    rg = ctx.rule("R20-GENSIB", "impl Generate for Rule (pest_optimizer = false) and for OptimizedRule translate every shared operator identically "
                                "(normal-form equality of match arms), and build the rule graph identically")
    gensib.run(rg, gen)
    rg.require(25, "arms")
    rgx = ctx.rule("R20-GENSIBX", "the same with the grammar-extras cargo feature on (node tags are one more shared operator)")
    genx = facts.load("extras")["pest_typed_generator.extras"]
    gensib.run(rgx, genx)
    if "arm NodeTag" not in repr(sorted(rgx.distinct)):
        rgx.violate("NodeTag", "no NodeTag arm was compared (anchor lost)")
    rgx.require(27, "arms")

    # ---- the optimizer's rewrite of `(!(s1|..) ~ ANY)*` into Skip<..> keeps the language only if skip_until looks no further than the
    #      unoptimized loop would: C08's bound rule on Input's methods (seed C20-8: `get(from..)` in the default skip_until)
    from . import c08
    ctx.adopt(c08.run, {"R08-BOUND": "R20-SKIPBOUND"})

    # ---- emitted names resolve / output compiles (rustc as the decision procedure on fixtures)
    rn = ctx.rule("R20-NAMES", "every name the templates emit resolves: derive output of one rule per operator form compiles with the optimizer on and off")
    rm = ctx.rule("R20-MATRIX", "recursive grammars still compile when boxing is reduced, and under every option combination")
    # operator coverage of the fixtures: every variant of both expression enums has a fixture rule
    fa = gen.body(gensib.OPT + "generate_graph_node")
    fb = gen.body(gensib.RAW + "generate_graph_node")
    cov_on = {"Str", "Insens", "PeekSlice", "Push", "Skip", "Range", "Ident", "PosPred", "NegPred", "RestoreOnErr", "Seq", "Choice", "Opt", "Rep"}
    cov_off = {"Str", "Insens", "PeekSlice", "Push", "Skip", "Range", "Ident", "PosPred", "NegPred", "Seq", "Choice", "Opt", "Rep", "RepOnce",
               "RepExact", "RepMin", "RepMax", "RepMinMax"}
    for body, cov, which in ((fa, cov_on, "optimized"), (fb, cov_off, "raw")):
        m = gensib.main_match(body) if body else None
        if m is None:
            rn.violate("coverage " + which, "cannot find the operator match of the %s generator" % which)
            continue
        variants = set(gensib.arms_by_variant(m))
        extra = variants - cov
        if extra:
            rn.violate("coverage " + which, "operator(s) %s of the %s generator have no fixture rule: their templates are not compiled by this check" % (sorted(extra), which))
        else:
            rn.inst("coverage " + which, None, "ok", {"variants": sorted(variants)})
    ops_err = rustc_errors(fs, "fx_ops")
    if ops_err is None and "fx_ops" in fs.crates:
        rn.inst("fx_ops compiles (optimizer on and off, counted repetition with optimizer on)", None, "ok")
    raw = rustc_errors(fs, "fx_rawrep")
    if raw is None:
        rn.inst("fx_rawrep compiles (counted repetition, pest_optimizer = false)", None, "ok")
    else:
        for code, msg in error_keys(raw):
            m = re.search(r"cannot find (?:type|struct|trait|value) `(\w+)` in module `[\w:]*generics`", msg)
            key = "generics::" + m.group(1) if m else "fx_rawrep: " + msg[:80]
            rn.violate(key, "derive output with pest_optimizer = false and a counted repetition does not compile: %s" % msg)
    for unit in ("fx_boxing", optunit):
        err = rustc_errors(fs, unit)
        ex = tt.load_expect(unit)
        if err is None:
            rm.inst("%s compiles (%d derive modules)" % (unit, len(ex["modules"])), None, "ok", {"modules": len(ex["modules"])})
        else:
            for code, msg in error_keys(err):
                rm.violate("%s: %s" % (unit, re.sub(r"`[\w:]*::(\w+_\w+|o\d\d)::", "`<mod>::", msg)[:100]), "derive output does not compile: [%s] %s" % (code, msg))
    # grammars that shadow built-ins and use them (fx_override; seed C11-8): the emitted names must not clash
    try:
        facts.load("fx_override")
        rn.inst("fx_override compiles (grammars shadowing NEWLINE / ASCII_* / unicode classes / skip rules)", None, "ok")
    except facts.BuildFailed as ex_:
        first = [l for l in ex_.out.splitlines() if l.startswith("error")][:2]
        rn.violate("fx_override", "derive output for a grammar that shadows a built-in does not compile: %s" % " | ".join(first)[:300])
    # static half: resolve every path the templates emit (universal over grammars, no fixture needed)
    from .. import tnames
    tnames.run(rn, gen, fs["pest_typed"])
    rn.require(25, "instances")
    rm.require(1, "fixtures")

    # ---- options influence representation only (type-level facts per rule equal across option sets)
    rc = ctx.rule("R20-CONFIG", "across option sets (same optimizer setting) every rule keeps its class tree, its atomicity constants and its "
                                "emission; only boxing and accessors may differ")
    if optunit in fs.crates:
        ct = tt.ClassTrees(world)
        ex = tt.load_expect(optunit)
        oc = fs[optunit]
        base = {}
        for mod, attrs in sorted(ex["modules"].items()):
            fx = tt.Fixture(oc, "%s::%s" % (optunit, mod))
            rf = rule_facts(ct, fx, world, oc)
            raw_ = "pest_optimizer = false" in attrs
            b = base.setdefault(raw_, (mod, rf))
            if b[0] == mod:
                rc.inst("%s (baseline, %s)" % (mod, "raw" if raw_ else "optimized"), None, "ok", {"rules": len(rf)}, nontrivial=False)
                continue
            for r in sorted(set(rf) | set(b[1])):
                key = "%s::%s vs %s" % (mod, r, b[0])
                a_, b_ = rf.get(r), b[1].get(r)
                if a_ is None or b_ is None:
                    rc.violate(key, "rule exists under one option set only (options %s)" % attrs)
                    continue
                diffs = [k for k in ("tree", "consts", "fields") if a_[k] != b_[k]]
                if diffs:
                    rc.violate(key, "options %s change %s of rule %s: %s vs %s" % (attrs, diffs, r, a_[diffs[0]], b_[diffs[0]]))
                else:
                    rc.inst(key, None, "ok", {"boxed": a_["boxed"], "baseline_boxed": b_["boxed"]})
        rc.require(60, "rule comparisons")
    # the two back-ends denote the same operator expression for every operator form (incl. skip-until sets): C01's instances
    from . import c01
    ctx.adopt(c01.run_opmap, {"R01-OPMAP": "R20-OPMAP"})

    ctx.assume("that optimised and unoptimised grammars accept the same inputs is not decided (pest's optimizer is trusted)")
    ctx.assume("rustc type-checking the fixture crates is the decision procedure for 'emitted code compiles'; sampled over the fixture grammars, "
               "with every operator variant of both generators covered (checked)")
    ctx.explanation = ("Determinism: resolved calls of the generator are scanned for hash-order iteration, clock, thread and environment use. "
                       "Sibling equality of the two Generate impls. rustc on fixtures: every operator form with the optimizer on/off, recursive "
                       "grammars with reduced boxing, option combinations. Type-level facts per rule compared across option sets.")
