"""C01 — recognises what pest recognises (structural clauses): operator classes, operator map, built-in tables, terminals."""
import re

from .. import facts, edt, nodes, classes, tt, tpl, inv
from ..hir import walk, strip_generics

PN = "pest_typed::predefined_node::"
NON_OPERATOR = {   # reviewed list of nodes that are not PEG operators (class OTHER allowed)
    PN + "PEEK": "stack built-in (C06)", PN + "POP": "stack built-in (C06)", PN + "DROP": "stack built-in (C06)",
    PN + "PEEK_ALL": "stack built-in (C06)", PN + "POP_ALL": "stack built-in (C06)", PN + "PeekSlice1": "stack built-in (C06)",
    PN + "PeekSlice2": "stack built-in (C06)",
}


def flatten(t):
    """Associativity: SEQ inside SEQ and CHOICE inside CHOICE are the same PEG (skip placement included)."""
    if not isinstance(t, list) or not t:
        return t
    head = t[0]
    kids = [flatten(x) if isinstance(x, list) else x for x in t[1:]]
    if head in ("SEQ", "CHOICE"):
        out = []
        for k in kids:
            if isinstance(k, list) and k and k[0] == head:
                out.extend(k[1:])
            else:
                out.append(k)
        return [head] + out
    return [head] + kids


def pest_builtin_table(pg):
    """name -> ('ranges', set((lo,hi))) | ('strings', [..]) | ('call', method) from pest_generator::generator::generate_builtin_rules."""
    b = pg.body("pest_generator::generator::generate_builtin_rules")
    if b is None:
        return None
    out = {}
    for tp in tpl.templates(pg, b):
        toks = list(tpl.flat(tp["tokens"]))
        name = None
        for i, t in enumerate(toks):
            if t == ("ident", "fn") and i + 1 < len(toks) and toks[i + 1][0] == "ident":
                name = toks[i + 1][1]
                break
        if name is None:
            continue
        # body = last brace group
        body = None
        for t in tp["tokens"]:
            if t[0] == "group" and t[1] == "Brace":
                body = t[2]
        if body is None:
            continue
        fl = list(tpl.flat(body))
        # macro_rules `$pattern:expr` fragments arrive as one source-text literal: join all token texts and scan
        text = " ".join(str(x[1]) for x in fl if x[0] in ("ident", "punct", "lit", "lifetime"))
        text = re.sub(r"\s+", " ", text)
        rng = re.findall(r"match_range\s*\(\s*('(?:\\.|[^'])+')\s*\.\.\s*('(?:\\.|[^'])+')\s*\)", text)
        strs = re.findall(r'match_string\s*\(\s*("(?:\\.|[^"])*")\s*\)', text)
        calls = re.findall(r"state\s*\.\s*(\w+)\s*\(", text)
        if rng:
            out[name] = ("ranges", list(rng))      # in pest's order of alternatives
        elif strs:
            out[name] = ("strings", strs)
        else:
            out[name] = ("call", [c for c in calls if c not in ("or_else", "rule")])
    return out


def norm_char(s):
    """'\\x00' / '\\0' / '\\u{7f}' -> code point"""
    x = s.strip("'")
    m = re.match(r"\\x([0-9a-fA-F]{2})$", x) or re.match(r"\\u\{([0-9a-fA-F]+)\}$", x)
    if m:
        return int(m.group(1), 16)
    if x == "\\0":
        return 0
    esc = {"\\n": 10, "\\r": 13, "\\t": 9, "\\\\": 92, "\\'": 39}
    if x in esc:
        return esc[x]
    return ord(x) if len(x) == 1 else x


def ranges_of(tree):
    """Set of (lo, hi) when a class tree is an (ordered) choice of single-character ranges, else None."""
    tree = flatten(tree)
    if tree[0] == "PRIM" and tree[1] == "match_range":
        return {(tree[2], tree[3])}
    if tree[0] == "CHOICE":
        out = set()
        for k in tree[1:]:
            r = ranges_of(k)
            if r is None:
                return None
            out |= r
        return out
    return None


def ranges_list(tree):
    """Ordered list of (lo, hi) when a class tree is an ordered choice of single-character ranges, else None."""
    tree = flatten(tree)
    if tree[0] == "PRIM" and tree[1] == "match_range":
        return [(tree[2], tree[3])]
    if tree[0] == "CHOICE":
        out = []
        for k in tree[1:]:
            r = ranges_list(k)
            if r is None:
                return None
            out += r
        return out
    return None


PEST_CALL_TO_REPO = {"skip": "ANY", "end_of_input": "EOI", "start_of_input": "SOI", "stack_peek": "PEEK", "stack_match_peek": "PEEK_ALL",
                     "stack_pop": "POP", "stack_match_pop": "POP_ALL", "stack_drop": "DROP"}


def run_opmap(ctx):
    """Only R01-OPMAP / R01-BUILTIN (for properties that adopt the operator map: C06, C20)."""
    return run(ctx, only_opmap=True)


def run_builtin_order(ctx):
    """R01-OPMAP / R01-BUILTIN plus the order of alternatives in built-in aliases (a C17 matter: which variant a character lands in)."""
    return run(ctx, only_opmap=True, with_order=True)


class _NoRule:
    def inst(self, *a, **k):
        pass

    def violate(self, *a, **k):
        pass

    def require(self, *a, **k):
        pass


def run(ctx, only_opmap=False, with_order=False):
    units = ["core", "fx_macros", "fx_ops", "fx_pestgen"]
    fs = facts.load(*units)
    world = nodes.World(fs, ["pest_typed", "fx_macros"])
    repo = fs["pest_typed"]
    ctx.analysed = {"crates": ["pest_typed", "fx_macros", "fx_ops (derive output, optimizer on/off)", "pest_generator (built-in table)"]}
    if not only_opmap:
        run_classes(ctx, fs, world, repo)
    run_opmap_part(ctx, fs, world, repo, with_order)


def run_classes(ctx, fs, world, repo):
    rc = ctx.rule("R01-CLASS", "every TypedNode impl has the path invariants of exactly one PEG operator class (or is a reviewed non-operator node)")
    counts = {}
    uni = set()
    for key, pid, cid, loc, im in world.twin_pairs():
        if im.trait != nodes.TN_TRAIT:
            continue
        path = im.self_adt()[0]
        for fid, mode in ((pid, "parse"), (cid, "check")):
            t = world.tree(fid)
            cls = classes.classify(t)
            k2 = "%s [%s]" % (key, mode)
            if "::unicode::" in path:
                uni.add(cls["cls"] + ":" + str(cls.get("prim")))
                if cls["cls"] == "PRIM" and cls["prim"] == "match_char_by" and ("pest::unicode::" + path.rsplit("::", 1)[-1]) in repr(cls["args"]):
                    rc.inst(k2, loc, "ok", nontrivial=False)
                else:
                    rc.violate(k2, "Unicode property node does not test the pest predicate of the same name", loc, edt.fmt(t))
                continue
            counts[cls["cls"]] = counts.get(cls["cls"], 0) + 1
            if cls["cls"] == "OTHER":
                if path in NON_OPERATOR:
                    rc.inst(k2, loc, "ok: " + NON_OPERATOR[path], nontrivial=False)
                else:
                    rc.violate(k2, "matches no PEG operator class (sequence, ordered choice, optional, repetition, predicate, push, terminal)", loc, edt.fmt(t))
            else:
                rc.inst(k2, loc, "ok", {"class": cls["cls"]})
    rc.note("classes: %s; unicode shapes: %s" % (sorted(counts.items()), sorted(uni)))
    rc.require(600, "functions")

    # ---- R01-TERM: cursor primitives: closed interval test in match_range; test -> advance -> result
    rt = ctx.rule("R01-TERM", "terminal matchers: match_range tests a closed interval; every primitive advances only after its test succeeded")
    b = repo.body("pest_typed::input::Input::match_range")
    if b is None:
        rt.violate("match_range", "missing")
    else:
        conds = []
        for n, guards in inv.walk_guarded(repo, b["value"]):
            if n["k"] == "block" and n.get("unsafe"):
                inv._LETS = inv.collect_lets(b["value"])
                conds = guards
        cond = " && ".join(conds)
        closed = ("range.start<=" in cond and "<=range.end" in cond) or ("contains" in cond and "RangeInclusive" in cond)
        if closed and "<range.end" not in cond.replace("<=range.end", ""):
            rt.inst("match_range: closed interval", repo.loc(b["value"].get("sp")), "ok", {"guard": cond})
        else:
            rt.violate("match_range: closed interval", "the character test guarding the advance is `%s`, expected start <= c && c <= end" % cond,
                       repo.loc(b["value"].get("sp")))
    # the remaining primitives are covered by the R09-UNSAFE keyed entries (test that guards each cursor write): cross-reference
    table = inv.load_table("discharge_unsafe.json")
    for prim in ("match_string", "match_insensitive", "skip", "match_char_by", "next", "skip_until"):
        ks = [k for k in table if ("Input::%s |" % prim) in k]
        if ks:
            rt.inst("Input::" + prim, None, "guard/advance pair reviewed under C09 R09-UNSAFE", {"keys": len(ks)}, nontrivial=False)
        else:
            rt.violate("Input::" + prim, "no reviewed guard/advance entry for this primitive")
    rt.require(5, "primitives")

    # ---- R01-PRIM: success <=> the input's own cursor moved (path enumeration over every primitive and override)
    from .. import prims
    rp_ = ctx.rule("R01-PRIM", "every consuming Input primitive (trait defaults, overrides in impls of Input, the &mut-self helpers they call): "
                   "each path that reports success has written the input's own cursor (not a temporary copy), each path that reports failure "
                   "has not (skip_until excepted, as in pest)")
    prims.adv_rule(rp_, repo)
    # the helper behind `Input for Position`::next counts characters exactly as pest's Position::skip does (same body)
    from .c12_c13 import compare_pairs
    if fs.get("pest") is not None:
        compare_pairs(ctx, rp_, fs, ["position::Position::<'i>::skip"])
    rp_.require(10, "primitives")

    # ---- stack built-ins: PEEK[a..b] index arithmetic is pest's, each built-in uses the right stack operation (C06's instances)
    from . import c06
    c06.run(ctx, ids=("R01-STACKIDX", "R01-STACKOPS", None), own=False)
    # ---- full backtracking: a failed alternative / option / iteration and every look-ahead leave stack and cursor as they were (C05's instances)
    from . import c05
    c05.run(ctx, ids=("R01-BT-PAIR", "R01-BT-RECOVER", "R01-BT-PRED", "R01-BT-CURSOR"), own=False)

    # ---- atomic rules, predicates and the check API recognise with the check twins: they recognise what the parse twins recognise
    #      only if the twins agree (C03's instances for pest_typed's nodes)
    from . import c03
    rtw = ctx.rule("R01-TWIN", "the check twin of every TypedNode of pest_typed has the effect tree of its parse twin (C03's instances): what an "
                               "atomic rule or a predicate recognises is what the tree-building twin recognises")
    c03.twin_rule(ctx, world, rtw, lambda im: im.crate.name == "pest_typed" and im.trait == nodes.TN_TRAIT)
    rtw.require(100, "twin pairs")
    # ---- implicit skipping and counted repetition are part of what is recognised: C07's and C19's instances
    from . import c07, c19
    ctx.adopt(c07.run, {"R07-PLACE": "R01-SKIP-PLACE", "R07-GIVEBACK": "R01-SKIP-GIVEBACK", "R07-CONST": "R01-SKIP-CONST",
                        "R07-SKIPTY": "R01-SKIP-TYPE", "R07-KIND": "R01-SKIP-KIND"})
    ctx.adopt(c19.run, {"R19-BOUNDS": "R01-REP-BOUNDS", "R19-SEQ": "R01-REP-SEQ", "R19-ALIAS": "R01-REP-ALIAS"})



def run_opmap_part(ctx, fs, world, repo, with_order=False):
    # ---- R01-OPMAP
    ro = ctx.rule("R01-OPMAP", "for each pest operator form the generated type has the class tree of that operator (children in grammar order), "
                               "optimizer on and off")
    rb = ctx.rule("R01-BUILTIN", "built-in rule aliases agree with pest_generator's table: same names, same closed intervals, NEWLINE strings in a "
                                 "prefix-consistent order, stack/position built-ins mapped to the node of the same role")
    rbo = ctx.rule("R01-BUILTIN-ORDER", "built-in aliases that are choices of character ranges list their alternatives in pest's order") \
        if with_order else _NoRule()
    ct = tt.ClassTrees(world)
    ex = tt.load_expect("fx_ops")
    pg = fs.get("pest_generator")
    ptab = pest_builtin_table(pg) if pg else None
    if not ptab:
        rb.violate("pest table", "cannot read pest_generator::generator::generate_builtin_rules (anchor lost)")
        ptab = {}
    fxc = fs["fx_ops"]
    for mod, info in sorted(ex["modules"].items()):
        fx = tt.Fixture(fxc, "fx_ops::" + mod)
        for r, want in sorted(info["rules"].items()):
            t = fx.inner_type(r)
            key = "%s::%s" % (mod, r)
            if t is None:
                ro.violate(key, "fixture rule has no TypedNode impl (generator output changed shape)")
                continue
            got = flatten(ct.tree(fx, t))
            want = flatten(want)
            # built-in placeholders: compare with pest's own definition
            def match(g, w):
                if isinstance(w, list) and w and w[0] == "PESTBUILTIN":
                    name = w[1]
                    p = ptab.get(name)
                    kb = "%s (%s)" % (name, mod)
                    if p is None:
                        rb.violate(kb, "pest_generator has no built-in of this name")
                        return True
                    if p[0] == "ranges":
                        rg = ranges_of(g)
                        nrm = lambda st: None if st is None else set((norm_char(a), norm_char(b)) for a, b in st)
                        if nrm(rg) == nrm(p[1]):
                            rb.inst(kb, None, "ok", {"intervals": sorted(p[1])})
                            rl_ = ranges_list(g)
                            mine = [(norm_char(a), norm_char(b)) for a, b in (rl_ or [])]
                            theirs = [(norm_char(a), norm_char(b)) for a, b in p[1]]
                            if mine == theirs:
                                rbo.inst(kb, None, "ok", {"order": p[1]})
                            else:
                                rbo.violate(kb, "alternatives are tried / stored in the order %s, pest's %s lists %s: the variant a character "
                                                "lands in is not the position of its alternative" % (rl_, name, p[1]))
                        else:
                            rb.violate(kb, "matches intervals %s, pest's %s is %s" % (sorted(rg) if rg else g, name, sorted(p[1])))
                        return True
                    if p[0] == "strings":
                        # repo: BUILTIN NEWLINE whose class is PRIMCHOICE with the strings in order
                        cls = ct.cls.get(PN + name, {})
                        mine = [a[0][1].strip("'") for _, a in cls.get("prims", [])] if cls.get("cls") == "PRIMCHOICE" else None
                        theirs = [s.strip('"') for s in p[1]]
                        def unesc(s):
                            return s.replace("\\r", "\r").replace("\\n", "\n")
                        a = [unesc(x) for x in (mine or [])]
                        bq = [unesc(x) for x in theirs]
                        def prefix_ok(lst):
                            for i, x in enumerate(lst):
                                for y in lst[i + 1:]:
                                    if y.startswith(x) and y != x:
                                        return False     # a shorter prefix is tried before the longer string
                            return True
                        if mine is not None and sorted(a) == sorted(bq) and prefix_ok(a) and prefix_ok(bq) and g == ["BUILTIN", name]:
                            rb.inst(kb, None, "ok", {"strings": mine, "pest": theirs})
                        else:
                            rb.violate(kb, "matches strings %s in that order; pest's %s tries %s" % (mine, name, theirs))
                        return True
                    return g == ["BUILTIN", name]
                if isinstance(w, list) and isinstance(g, list):
                    if len(w) != len(g):
                        return False
                    return all(match(x, y) for x, y in zip(g, w))
                return g == w
            if match(got, want):
                ro.inst(key, fxc.loc(fx.rules[r].get("sp")) if r in fx.rules else None, "ok", {"tree": str(got)[:200]})
            else:
                ro.violate(key, "generated type has class tree %s, the operator expression denotes %s" % (got, want))
    # call-style built-ins: the alias target has the node class pest's primitive denotes
    role = {"ANY": ("PRIM", "next"), "SOI": ("PRIM", "at_start"), "EOI": ("PRIM", "at_end")}
    for name, p in sorted(ptab.items()):
        if p[0] != "call":
            continue
        calls = p[1]
        target = next((PEST_CALL_TO_REPO[c] for c in calls if c in PEST_CALL_TO_REPO), None)
        kb = name + " (role)"
        if target is None:
            rb.violate(kb, "pest built-in %s uses %s: no counterpart known" % (name, calls))
            continue
        if target != name:
            rb.violate(kb, "pest's %s is %s, mapped to node %s" % (name, calls, target))
            continue
        cls = ct.cls.get(PN + name)
        if cls is None:
            rb.violate(kb, "no runtime node named %s" % name)
        elif name in role and (cls["cls"], cls.get("prim")) != role[name]:
            rb.violate(kb, "node %s has class %s/%s, pest's built-in is %s" % (name, cls["cls"], cls.get("prim"), calls))
        else:
            rb.inst(kb, None, "ok", {"pest": calls, "class": cls["cls"]})
    # unicode property names: every pest property has a node
    names = set()
    for it in repo.item_list:
        if it["kind"] == "Struct" and it["id"].startswith(PN + "unicode::"):
            names.add(it["id"].rsplit("::", 1)[-1])
    pest = fs["pest"]
    pnames = set(it["id"].rsplit("::", 1)[-1] for it in pest.item_list if it["kind"] == "Fn" and re.match(r"pest::unicode::[A-Z_0-9]+$", it["id"]))
    missing = sorted(pnames - names)
    if missing:
        rb.violate("unicode nodes", "pest unicode properties without a node: %s" % missing[:10])
    else:
        rb.inst("unicode nodes", None, "ok", {"properties": len(pnames), "nodes": len(names)})
    ro.require(50, "fixture rules")
    rb.require(18, "built-ins")
    rbo.require(4, "range aliases")
    ctx.assume("acceptance and offsets on inputs, pest's optimizer and the meaning of the Unicode tables are not decided; pest_generator's table is the oracle for built-ins")
    ctx.assume("pest::Stack nested clear_snapshot is known unsound for pop-then-clear-then-outer-restore (dependency; see C05)")
    ctx.assume("fixture expectations (fixtures/fx_ops/expect.json) are authored from PEG semantics of pest's operators and pest_meta's documented unrolling of counted repetitions")
    ctx.explanation = ("Every combinator is classified by path invariants of its effect decision tree; the derive output for one rule per pest "
                       "operator form (optimizer on and off) is read as a type tree and mapped through those classes to a class tree that must "
                       "equal the operator expression's; ASCII / NEWLINE built-ins are compared with the table recovered from pest_generator's "
                       "quote! templates.")
