"""C05 — a failed attempt leaves no trace: snapshot/restore typestate on effect decision trees."""
from .. import facts, edt, nodes, classes
from ..hir import walk, strip_generics

SNAP_CALLS = ("pest::stack::Stack::snapshot", "pest::stack::Stack::restore", "pest::stack::Stack::clear_snapshot")


def fns_calling(crate, paths):
    out = {}
    for bid, bs in crate.bodies.items():
        for n in walk(bs[0]["value"]):
            c = n.get("callee")
            if c and strip_generics(c["path"]) in paths:
                out.setdefault(bid, []).append((strip_generics(c["path"]).rsplit("::", 1)[-1], crate.loc(n.get("sp"))))
    return out


def refs(x, evs, loops):
    """Does a value/label reference a cursor produced inside the attempt?"""
    if isinstance(x, tuple):
        if len(x) == 2 and x[0] == "out" and x[1] in evs:
            return True
        if len(x) == 3 and x[0] in ("exit", "loop") and x[1] in loops and isinstance(x[2], int):
            return True
        return any(refs(y, evs, loops) for y in x)
    return False


class PairWalk:
    """Typestate walk: open-snapshot depth along every path + recovery obligations."""

    def __init__(self, tree):
        self.tree = tree
        self.pair_errors = []
        self.recover = []          # (child label, eid, ok?, why)
        self.cursor_errors = []
        self.snapshots = 0
        self.depth_at = {}

    def run(self):
        self.walk(self.tree, [], {})
        return self

    def walk(self, t, opens, loopdepth):
        """opens: list of [set(event ids), set(loop ids)] for each open snapshot (innermost last)."""
        tag = t[0]
        if tag in ("ev", "fork"):
            o = t[2][0]
            eid = t[1]
            self.depth_at[eid] = len(opens)
            for s in opens:
                s[0].add(eid)
            if o == "snapshot":
                self.snapshots += 1
                return self.walk(t[3], opens + [[set(), set()]], loopdepth)
            if o in ("restore", "clear_snapshot"):
                if not opens:
                    self.pair_errors.append("%s without an open snapshot (event e%d)" % (o, eid))
                    return self.walk(t[3], opens, loopdepth)
                return self.walk(t[3], [[set(s[0]), set(s[1])] for s in opens[:-1]], loopdepth)
            if tag == "ev":
                return self.walk(t[3], opens, loopdepth)
            # fork
            if o in ("MATCH", "FULL", "CALLPARAM"):
                self.obligation(t, opens)
            self.walk(t[3], [[set(s[0]), set(s[1])] for s in opens], loopdepth)
            self.walk(t[4], [[set(s[0]), set(s[1])] for s in opens], loopdepth)
            return
        if tag == "loop":
            lid = t[1]
            for s in opens:
                s[1].add(lid)
            ld = dict(loopdepth)
            ld[lid] = len(opens)
            self.walk(t[4], [[set(s[0]), set(s[1])] for s in opens], ld)
            self.walk(t[5], [[set(s[0]), set(s[1])] for s in opens], ld)
            return
        if tag == "opq":
            for _, s in t[2]:
                self.walk(s, [[set(x[0]), set(x[1])] for x in opens], loopdepth)
            return
        if tag == "unm":
            return self.walk(t[2], opens, loopdepth)
        if tag == "leaf":
            d = len(opens)
            if t[1] in ("CONTINUE", "BREAK"):
                want = loopdepth.get(t[2], 0)
                if d != want:
                    self.pair_errors.append("%d snapshot(s) still open at %s of loop L%s (loop entered with %d)" % (d, t[1], t[2], want))
            elif t[1] == "PANIC":
                pass
            elif d != 0:
                self.pair_errors.append("%d snapshot(s) still open at leaf %s" % (d, " ".join(map(str, t[1:]))))

    def obligation(self, fork, opens):
        """fork = failing child event. Look at its fail subtree."""
        eid = fork[1]
        label = "%s(%s)" % (fork[2][0], fork[2][1][0] if fork[2][1] else "")
        state = {"recovering": False, "bad": None}

        def rec(n, restored):
            tag = n[0]
            if tag == "leaf":
                if n[1] in ("RET_FAIL", "RET_ERR", "PANIC"):
                    return
                state["recovering"] = True
                if not restored and state["bad"] is None:
                    state["bad"] = "reaches %s without `restore` after the failed %s" % (" ".join(map(str, n[1:3])), label)
                return
            if tag in ("ev", "fork"):
                o = n[2][0]
                if o == "restore":
                    # obligations met for everything below; still note recovery
                    if has_recovering_leaf(n[3]):
                        state["recovering"] = True
                    return
                if not restored and (o in classes.STACK_OPS or o in classes.CHILD_OPS or o in classes.CURSOR_PRIMS):
                    if has_recovering_leaf(n):
                        state["recovering"] = True
                        if state["bad"] is None:
                            state["bad"] = "event %s happens after the failed %s before any `restore`" % (o, label)
                    return
                for k in n[3:]:
                    rec(k, restored)
                return
            if tag == "loop":
                rec(n[4], restored)
                rec(n[5], restored)
                return
            if tag == "opq":
                for _, s in n[2]:
                    rec(s, restored)
                return
            if tag == "unm":
                rec(n[2], restored)
        rec(fork[4], False)
        if state["recovering"]:
            why = state["bad"]
            if why is None and not opens:
                why = "recovers from the failed %s but no snapshot was taken before it" % label
            self.recover.append((label, eid, why is None, why))
            # cursor rule: nothing produced inside the attempt may be used afterwards
            if opens:
                evs, loops = opens[-1]
                evs = set(evs) | {eid}
                bad = find_ref(fork[4], evs, set(loops))
                if bad:
                    self.cursor_errors.append("after the failed %s, %s uses a cursor produced inside the failed attempt" % (label, bad))


def has_recovering_leaf(n):
    for lf in classes.all_leaves(n):
        if lf[1] not in ("RET_FAIL", "RET_ERR", "PANIC"):
            return True
    return False


def find_ref(n, evs, loops):
    tag = n[0]
    if tag in ("ev", "fork"):
        if refs(n[2], evs, loops):
            return "event %s" % n[2][0]
        for k in n[3:]:
            r = find_ref(k, evs, loops)
            if r:
                return r
        return None
    if tag == "loop":
        if refs(n[3], evs, loops):
            return "a loop entry"
        return find_ref(n[4], evs, loops) or find_ref(n[5], evs, loops)
    if tag == "opq":
        for _, s in n[2]:
            r = find_ref(s, evs, loops)
            if r:
                return r
        return None
    if tag == "unm":
        return find_ref(n[2], evs, loops)
    if tag == "leaf":
        if n[1] in ("RET_FAIL", "RET_ERR", "PANIC"):
            return None
        if refs(n[1:], evs, loops):
            return "leaf %s" % n[1]
    return None


def rolled_back_successes(tree):
    """`restore` reached on a path where everything attempted under that snapshot succeeded: the stack effects of a successful
    attempt are thrown away (mutation scan: `Some(_) => stack.restore()` in restore_on_none).  Look-ahead nodes do this on purpose
    and are exempted by the caller."""
    out = []

    def go(n, opens):
        tag = n[0]
        if tag in ("ev", "fork"):
            o = n[2][0]
            if o == "snapshot":
                return go(n[3], opens + [{"succ": False, "fail": False}])
            if o in ("restore", "clear_snapshot"):
                if opens:
                    top = opens[-1]
                    if o == "restore" and top["succ"] and not top["fail"]:
                        out.append(n[1])
                    return go(n[3], opens[:-1])
                return go(n[3], opens)
            if tag == "ev":
                return go(n[3], opens)
            if o in ("MATCH", "FULL", "CALLPARAM") and opens:
                ok = [dict(x) for x in opens]
                ok[-1]["succ"] = True
                ko = [dict(x) for x in opens]
                ko[-1]["fail"] = True
                go(n[3], ok)
                go(n[4], ko)
                return
            go(n[3], [dict(x) for x in opens])
            go(n[4], [dict(x) for x in opens])
            return
        if tag == "loop":
            go(n[4], [dict(x) for x in opens])
            go(n[5], [dict(x) for x in opens])
        elif tag == "opq":
            for _, sub in n[2]:
                go(sub, [dict(x) for x in opens])
        elif tag == "unm":
            go(n[2], opens)
    go(tree, [])
    return out


_LA_CACHE = {}


def lookahead_helper(world, fid):
    """A free helper (not a node's twin method) all of whose callers are methods of look-ahead nodes (class POS / NEG): it restores
    on purpose (`with_restored_stack(stack, |stack| ..)` extracted from Positive / Negative)."""
    if fid in _LA_CACHE:
        return _LA_CACHE[fid]
    res = False
    if not fid.startswith("<"):
        callers = []
        for c in world.crates:
            for bid, bs in c.bodies.items():
                if bid == fid:
                    continue
                for n in walk(bs[0]["value"]):
                    cal = n.get("callee")
                    if cal and strip_generics(cal["path"]) == strip_generics(fid):
                        callers.append(bid)
                        break
        if callers:
            res = True
            for bid in callers:
                try:
                    if classes.classify(world.tree(bid))["cls"] not in ("POS", "NEG"):
                        res = False
                except edt.Unsupported:
                    res = False
    _LA_CACHE[fid] = res
    return res


def discarded_matches(tree):
    """Successful child matches whose result is dropped while their stack effects stay: on the success side of a failing-capable
    child event, a leaf that goes on (returns success, continues or leaves a loop) without using the cursor that match produced —
    directly or through later events on it — and without a `restore` in between.  (A matched iteration that is thrown away by a
    "no progress" guard, seed C05-6.)"""
    out = []

    inner = set()       # loops entered after the match: their CONTINUE / BREAK only move on to the loop's exit, which is walked

    def below(n, derived, eid, label):
        tag = n[0]
        if tag == "leaf":
            if n[1] in ("RET_FAIL", "RET_ERR", "PANIC"):
                return
            if n[1] in ("CONTINUE", "BREAK") and n[2] in inner:
                return
            if not refs(n[1:], derived, set()):
                out.append((eid, label, " ".join(map(str, n[1:3]))))
            return
        if tag in ("ev", "fork"):
            o = n[2][0]
            if o == "restore":
                return
            d = derived | {n[1]} if refs(n[2], derived, set()) else derived
            for k in n[3:]:
                below(k, d, eid, label)
            return
        if tag == "loop":
            if refs(n[3], derived, set()):
                return          # the cursor enters a loop: carried on
            inner.add(n[1])
            below(n[4], derived, eid, label)
            below(n[5], derived, eid, label)
            return
        if tag == "opq":
            for _, sub in n[2]:
                below(sub, derived, eid, label)
            return
        if tag == "unm":
            below(n[2], derived, eid, label)

    def top(n):
        tag = n[0]
        if tag == "fork" and n[2][0] in ("MATCH", "FULL"):
            below(n[3], {n[1]}, n[1], "%s(%s)" % (n[2][0], n[2][1][0] if n[2][1] else ""))
        if tag in ("ev", "fork"):
            for k in n[3:]:
                top(k)
        elif tag == "loop":
            top(n[4])
            top(n[5])
        elif tag == "opq":
            for _, sub in n[2]:
                top(sub)
        elif tag == "unm":
            top(n[2])
    top(tree)
    return out


def analysed_functions(world):
    """All twin methods + every function that calls snapshot/restore/clear_snapshot."""
    fns = {}
    for key, pid, cid, loc, im in world.twin_pairs():
        fns[pid] = (key + " [parse]", loc)
        fns[cid] = (key + " [check]", loc)
    callers = {}
    for c in world.crates:
        callers.update(fns_calling(c, SNAP_CALLS))
    for fid in callers:
        if fid not in fns:
            fns[fid] = (fid, world.fn_loc(fid))
    return fns, callers


def run(ctx, ids=("R05-PAIR", "R05-RECOVER", "R05-PRED", "R05-CURSOR"), own=True):
    """`ids`: C01 registers the same instances under its own rule ids (full backtracking is part of recognising what pest recognises)."""
    fs = facts.load("core", "fx_macros")
    world = nodes.World(fs, ["pest_typed", "fx_macros"])
    if own:
        ctx.analysed = {"crates": ["pest_typed", "fx_macros"]}
    fns, callers = analysed_functions(world)
    rp = ctx.rule(ids[0], "snapshot / restore|clear_snapshot balanced like parentheses on every path of every function that uses them")
    rr = ctx.rule(ids[1], "every path that recovers from a failed child passes `restore` (with a snapshot taken before) before touching stack, cursor or another child")
    rd = ctx.rule(ids[2], "look-ahead nodes (class POS/NEG) snapshot before their operand and never clear_snapshot: the stack is restored on every path")
    rc = ctx.rule(ids[3], "after a failed attempt no later event and no result uses a cursor produced inside the attempt")
    unicode_done = False
    for fid, (key, loc) in sorted(fns.items()):
        if "::unicode::" in fid:
            if unicode_done:
                continue
            unicode_done = True
        try:
            t = world.tree(fid)
        except edt.Unsupported as ex:
            if fid in callers:
                rp.violate(key, "cannot build the effect tree of a function that calls snapshot/restore: %s" % ex, loc)
            continue
        unm = world.unmodelled(fid)
        w = PairWalk(t).run()
        if w.snapshots or fid in callers:
            if unm:
                rp.violate(key, "unmodelled construct in a function using snapshots: %s" % unm[0][0], unm[0][1])
            elif w.pair_errors:
                rp.violate(key, w.pair_errors[0], loc, edt.fmt(t))
            else:
                rp.inst(key, loc, "ok", {"snapshots": w.snapshots})
        for label, eid, ok, why in w.recover:
            ck = "%s / %s#e%d" % (key, label, eid)
            if ok:
                rr.inst(ck, loc)
            else:
                rr.violate(ck, why, loc, edt.fmt(t))
        for err in w.cursor_errors:
            rc.violate(key, err, loc, edt.fmt(t))
        if w.recover and not w.cursor_errors:
            rc.inst(key, loc, "ok", {"recovering_sites": len(w.recover)})
        cls = classes.classify(t)
        if w.snapshots and cls["cls"] not in ("POS", "NEG") and not lookahead_helper(world, fid):
            rb_ = rolled_back_successes(t)
            if rb_:
                rp.violate(key + " / keep", "`restore` is reached (event e%d) on a path where every attempt under that snapshot succeeded: a "
                           "successful attempt loses its stack effects" % rb_[0], loc, edt.fmt(t))
        if cls["cls"] in ("POS", "NEG"):
            evs = list(classes.events(t))
            ops = [e[2][0] for e in evs]
            child = [e for e in evs if e[2][0] == "MATCH"]
            if "clear_snapshot" in ops:
                rd.violate(key, "look-ahead keeps the operand's stack effects on some path (clear_snapshot)", loc, edt.fmt(t))
            elif not child or any(w.depth_at.get(e[1], 0) < 1 for e in child):
                rd.violate(key, "look-ahead matches its operand without an open snapshot", loc, edt.fmt(t))
            else:
                rd.inst(key, loc, "ok", {"class": cls["cls"]})
    # who-may-call: every caller of the snapshot API was analysed above
    for fid in callers:
        if fid not in fns:
            rp.violate(fid, "calls the snapshot API but was not analysed", world.fn_loc(fid))
    if own:
        rdis = ctx.rule("R05-DISCARD", "a child that matched is never thrown away with its stack effects kept: every path that goes on after a "
                        "successful child match uses the cursor it produced, or passes `restore`")
        unicode_done = False
        for fid, (key, loc) in sorted(fns.items()):
            if "::unicode::" in fid:
                if unicode_done:
                    continue
                unicode_done = True
            try:
                t = world.tree(fid)
            except edt.Unsupported:
                continue
            if key.startswith("ParsableTypedNode for "):
                continue        # full-parse entry points return a tree, no cursor: stack and cursor end with the call
            bad = discarded_matches(t)
            n_forks = sum(1 for e in classes.events(t) if e[0] == "fork" and e[2][0] in ("MATCH", "FULL"))
            if not n_forks:
                continue
            if bad:
                rdis.violate(key, "after the successful %s (e%d) a path reaches `%s` without using the matched cursor and without `restore`" % (
                    bad[0][1], bad[0][0], bad[0][2]), loc, edt.fmt(t))
            else:
                rdis.inst(key, loc, "ok", {"child_matches": n_forks})
        rdis.require(90, "functions with child matches")     # 98 today
    rp.require(5, "functions using snapshots")       # restore_on_none, Positive x2, Negative x2 (+ inliners)
    rr.require(150, "recovery sites")                 # 77x2 choice alternatives + option + repetitions + negative
    rd.require(4, "look-ahead functions")
    rc.require(40, "functions with recovery sites")
    if not own:
        return
    # an iteration of a repetition includes the implicit skip before it: a failed iteration gives that skip back
    from . import c07
    rgb = ctx.rule("R05-GIVEBACK", "a failed iteration of a repetition leaves the loop-carried cursor as it was before the iteration, the implicit "
                   "skip before it included (R07-GIVEBACK instances)")
    c07.giveback_rule(ctx, world, rgb)
    rgb.require(8, "repetition loops")
    ctx.assume("pest::Stack::{snapshot, restore, clear_snapshot} do what their documentation says; known exception in pest 2.7.14: "
               "clear_snapshot of an inner snapshot forgets pops made under it, so a later outer restore does not bring them back "
               "(r = { PUSH(\"a\") ~ ((POP? ~ \"x\") | (PEEK ~ \"y\")) } on \"aay\") — dependency defect, no construct in /repo is wrong")
    ctx.assume("cursor primitives write the cursor only on their success path (R09-UNSAFE templates)")
    ctx.explanation = ("Typestate rules over effect decision trees of all combinators (generic code, so for every grammar and input): "
                       "balanced snapshot/restore on all paths; a restore between any failed child and the next stack/cursor/child event on "
                       "every path that does not propagate the failure; look-ahead never clears; cursors from a failed attempt are dead.")
