"""C12 / C13 — Position and Span agree with pest: sibling normal-form equality
between the repo's copies and pest's source at the version Cargo.lock resolves."""
from .. import facts, snf

C12_FNS = [
    "position::Position::<'i>::new",
    "position::Position::<'i>::line_col",
    "position::Position::<'i>::line_of",
    "position::Position::<'i>::find_line_start",
    "position::Position::<'i>::find_line_end",
    "position::Position::<'i>::at_end",
    "position::Position::<'i>::at_start",
    "position::Position::<'i>::from_start",
    "position::Position::<'i>::pos",
]
C13_FNS = [
    "span::Span::<'i>::new",
    "span::Span::<'i>::get",
    "span::Span::<'i>::start",
    "span::Span::<'i>::end",
    "span::Span::<'i>::start_pos",
    "span::Span::<'i>::end_pos",
    "span::Span::<'i>::split",
    "span::Span::<'i>::as_str",
    "span::Span::<'i>::get_input",
    "span::Span::<'i>::lines",
    "span::Span::<'i>::lines_span",
    "span::merge_spans",
    "<{K}::span::LinesSpan<'i> as core::iter::traits::iterator::Iterator>::next",
    "<{K}::span::Lines<'i> as core::iter::traits::iterator::Iterator>::next",
    "<{K}::span::Span<'i> as core::cmp::PartialEq>::eq",
    "<{K}::span::Span<'i> as core::hash::Hash>::hash",
    "position::Position::<'i>::span",
    # LinesSpan::next cuts the lines with these two (seed C13-8 broke `lines` through find_line_end)
    "position::Position::<'i>::find_line_start",
    "position::Position::<'i>::find_line_end",
    "<{K}::position::Position<'i> as core::cmp::PartialEq>::eq",
    "<{K}::position::Position<'i> as core::hash::Hash>::hash",
]
# pest's safe crate-private constructor became an `unsafe fn` here; same body.
RENAMES = {"new_internal": "new_unchecked"}
CONSTRUCTORS = ["position::Position::<'i>::new_unchecked", "span::Span::<'i>::new_unchecked"]


def ident(name, k):
    if "{K}" in name:
        return name.replace("{K}", k)
    return k + "::" + name


def compare_pairs(ctx, rule, fs, names, extra_info=False):
    repo = fs["pest_typed"]
    pest = fs["pest"]
    ok = 0
    for nm in names:
        rid = ident(nm, "pest_typed")
        pid = ident(nm, "pest")
        for a, b in RENAMES.items():
            pid = pid.replace(b, a)
        rb = repo.body(rid)
        pb = pest.body(pid)
        short = nm.replace("{K}::", "")
        if rb is None:
            rule.violate(short, "function no longer exists in pest_typed (anchor lost): %s" % rid)
            continue
        if pb is None:
            rule.violate(short, "pest %s has no function %s to compare with" % (pest.path, pid))
            continue
        eq, size, diff = snf.compare(repo, rb, pest, pb, crate_map_a={"pest_typed": "pest"},
                                     renames_b=RENAMES)
        loc = repo.loc(rb["value"].get("sp"))
        if eq:
            ok += 1
            rule.inst(short, loc, "ok", {"nodes_compared": size, "pest": pest.loc(pb["value"].get("sp"))})
        else:
            a, b = diff
            rule.violate(short, "body differs from pest's %s (cannot establish agreement)" % pid, a.loc or loc,
                         "repo  %s: %s\npest  %s: %s" % (a.loc, a.show(), b.loc, b.show()))
    return ok


def _step(ty):
    """Where method probing finds a receiver of this declared type: by value (0), by `&` (1), by `&mut` (2)."""
    t = ty.strip()
    if t.startswith("&mut "):
        return 2
    if t.startswith("&"):
        return 1
    return 0


def shadow_rule(rs, rcalls, repo, type_prefix, names):
    """Method-call syntax on a Position / Span must reach the pest-equal inherent function.

    SHADOW: a trait of this crate that the type implements must not declare a method of the same name as an inherent method
    with a receiver that method probing tries *earlier* (by value before `&` before `&mut`; inherent methods win ties): with the
    trait in scope `x.name()` would silently resolve to the trait's method (seed C12-6: `Input::line_of(self)` by value).
    CALLS: inside pest_typed every `x.name()` on a value of the type, for an inherent method name, resolves to the inherent function."""
    from ..hir import walk, strip_generics
    inherent = {}
    for it in repo.item_list:
        if it.get("kind") == "AssocFn" and it.get("has_self") and str(it.get("parent", "")).startswith(type_prefix + "<") \
                and it.get("parent_kind") == "Impl { of_trait: false }" and it.get("inputs"):
            inherent[it["name"]] = (_step(repo.tys(it["inputs"][0])), it["id"])
    traits = {}
    for it in repo.item_list:
        if it.get("kind") == "AssocFn" and it.get("parent_kind") == "Trait" and it.get("has_self") and it.get("inputs") \
                and str(it.get("parent", "")).startswith("pest_typed::"):
            traits.setdefault(it["parent"], {})[it["name"]] = _step(repo.tys(it["inputs"][0]))
    applies = {}
    for im in repo.impls():
        tr = im.get("trait")
        if tr not in traits or im.get("self_ty") is None:
            continue
        st = repo.tys(im["self_ty"])
        tdict = repo.types[im["self_ty"]]
        if st.replace("&mut ", "").lstrip("&").startswith(type_prefix + "<") and not st.startswith("&"):
            applies[tr] = "impl for the type"
        elif tdict.get("k") == "param":
            applies.setdefault(tr, "blanket impl over a type parameter")
    for tr, how in sorted(applies.items()):
        bad = []
        for nm, tstep in sorted(traits[tr].items()):
            if nm in inherent and tstep < inherent[nm][0]:
                bad.append("%s (trait receiver is tried at probing step %d, the inherent method's at step %d)" % (nm, tstep, inherent[nm][0]))
        key = "%s / %s" % (type_prefix.rsplit("::", 1)[-1], tr)
        if bad:
            rs.violate(key, "with the trait in scope, method-call syntax on a value resolves to the trait's method instead of the "
                            "pest-equal inherent one: %s" % "; ".join(bad), None)
        else:
            rs.inst(key, None, "ok", {"how": how, "same_named": sorted(set(traits[tr]) & set(inherent))})
    n = 0
    for fid, bs in repo.bodies.items():
        if "::tests::" in fid:
            continue
        for e in walk(bs[0]["value"]):
            if e["k"] != "mcall" or not e.get("callee") or e.get("name") not in inherent:
                continue
            rt = e["recv"].get("ty")
            if rt is None:
                continue
            t = repo.tys(rt).replace("&mut ", "").lstrip("&")
            if not t.startswith(type_prefix + "<"):
                continue
            n += 1
            cal = strip_generics(e["callee"]["path"])
            want = strip_generics(inherent[e["name"]][1])
            if cal != want:
                rcalls.violate("%s | .%s()" % (fid, e["name"]), "resolves to %s, not to the inherent %s" % (cal, want), repo.loc(e.get("sp")))
            else:
                rcalls.inst("%s | .%s()" % (fid, e["name"]), repo.loc(e.get("sp")), nontrivial=False)
    return n


def run(ctx):
    fs = facts.load("core")
    pest = fs["pest"]
    ver = [f for f in pest.src_files if "/pest-" in f]
    pest_src = ver[0].split("/src/")[0] if ver else "?"
    ctx.analysed = {"pest_source": pest_src, "repo_crate": "pest_typed (default features, debug assertions on)"}
    ctx.assume("pest (the version Cargo.lock resolves; its source in the cargo registry is read on every run) is the oracle")
    ctx.assume("sufficient condition: a behaviour-preserving rewrite of a copied function that the normal form does "
               "not absorb is reported as 'cannot establish agreement'")
    ctx.assume("ptfacts prints the HIR and typeck tables rustc built; snf.py normalises only: local names, crate "
               "prefix, new_internal/new_unchecked, unsafe/plain blocks, debug_assert*, method-call vs UFCS syntax")
    if ctx.prop == "C12":
        names = C12_FNS
        r = ctx.rule("R12-SIB", "Position::{new,line_col,line_of,find_line_start,find_line_end,...} are the same "
                                "programs as pest's (normal-form equality of typed HIR)")
        floor = 9
    else:
        names = C13_FNS
        r = ctx.rule("R13-SIB", "Span::{new,get,start,end,split,as_str,lines,lines_span}, merge_spans, line "
                                "iterators, PartialEq/Hash/Ord are the same programs as pest's")
        floor = 21
    ok = compare_pairs(ctx, r, fs, names)
    r.require(floor, "function pairs")
    # constructors: the rename must denote the same body
    rc = ctx.rule("R%s-CTOR" % ctx.prop[1:], "unchecked constructors used by the compared functions are pest's new_internal")
    okc = compare_pairs(ctx, rc, fs, CONSTRUCTORS)
    rc.require(2, "constructor pairs")
    tp = "pest_typed::position::Position" if ctx.prop == "C12" else "pest_typed::span::Span"
    rs = ctx.rule("R%s-SHADOW" % ctx.prop[1:], "no trait of pest_typed that the type implements declares a same-named method whose receiver is "
                  "probed before the inherent (pest-equal) method's")
    rcl = ctx.rule("R%s-CALLS" % ctx.prop[1:], "inside pest_typed, method calls on a value of the type resolve to the inherent (pest-equal) functions")
    shadow_rule(rs, rcl, fs["pest_typed"], tp, names)
    rs.require(1, "implemented traits")
    rcl.require(10 if ctx.prop == "C12" else 10, "method calls")
    ctx.extra["programs"] = r.instances + rc.instances
    ctx.extra["disagreements_checked"] = len(r.violations) + len(rc.violations)
    ctx.explanation = ("Translation validation by sibling normal form: for each named function the typed HIR of the "
                       "repo's copy and of pest's original (registry source of the resolved version) are normalised "
                       "and compared node by node. Equal normal forms = same program = same results for every "
                       "string and offset. No function is executed.")
    if ctx.tier == "thorough":
        # informational: every other function of the copied files
        info = ctx.rule("R%s-INFO" % ctx.prop[1:], "(informational) other functions of position.rs/span.rs still equal to pest's")
        repo = fs["pest_typed"]
        for bid in sorted(repo.bodies):
            if not (bid.startswith("pest_typed::position::") or bid.startswith("pest_typed::span::")):
                continue
            if "::tests::" in bid:
                continue
            pid = bid.replace("pest_typed::", "pest::").replace("new_unchecked", "new_internal")
            pb = pest.body(pid)
            if pb is None:
                continue
            eq, size, diff = snf.compare(repo, repo.body(bid), pest, pb, crate_map_a={"pest_typed": "pest"}, renames_b=RENAMES)
            info.inst(bid, repo.loc(repo.body(bid)["value"].get("sp")), "equal" if eq else "differs (not part of the verdict)")
