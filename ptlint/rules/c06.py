"""C06 — stack operations behave as pest specifies and fail gracefully."""
from .. import facts, edt, nodes, classes, snf
from ..hir import walk, strip_generics

PN = "pest_typed::predefined_node::"
WRITES = {"push", "pop", "snapshot", "restore", "clear_snapshot"}


def ops(t):
    return [e[2][0] for e in classes.events(t)]


def contains(v, needle):
    return (needle if isinstance(needle, str) else repr(needle)) in repr(v)


def check_peek_pop(t, which):
    """fork <which>; ok -> match_string(text of that entry) on IN -> ok RET_OK(out) / fail RET_FAIL; fail -> empty_stack -> RET_FAIL"""
    if not (t[0] == "fork" and t[2][0] == which):
        return "does not start by reading the top of the stack with `%s`" % which
    ok, fail = t[3], t[4]
    if not (ok[0] == "fork" and ok[2][0] == "match_string" and ok[2][2] == "IN"):
        return "the entry is not matched with match_string at the current position"
    arg = ok[2][1][0]
    if not (contains(arg, "stack_%s" % which) and contains(arg, ("ev", t[1])) and contains(arg, "as_str")):
        return "the string matched is not the text of the entry just read (%s)" % edt.fmt_val(arg)
    if not (classes.is_ret_ok(ok[3], ("out", ok[1])) and ok[4] == classes.RET_FAIL):
        return "match outcome is not passed on (ok -> consumed, fail -> fail)"
    if not (fail[0] == "ev" and fail[2][0] == "empty_stack" and fail[2][2] == "IN" and fail[3] == classes.RET_FAIL):
        return "empty stack does not report empty_stack and fail"
    others = [o for o in ops(t) if o in WRITES and o != which]
    if others:
        return "unexpected stack writes: %s" % others
    return None


def check_drop(t):
    if not (t[0] == "fork" and t[2][0] == "pop"):
        return "does not pop"
    if not classes.is_ret_ok(t[3], "IN"):
        return "DROP consumes input or does not succeed after popping"
    f = t[4]
    if not (f[0] == "ev" and f[2][0] == "empty_stack" and f[3] == classes.RET_FAIL):
        return "empty stack does not report empty_stack and fail"
    return None


def iter_loop(t, want_rev, want_range=None):
    """[stack_index(range)] ; Loop over iter(...) { match_string(as_str(elem)) on c ; ok CONTINUE(out) ; fail RET_FAIL } ; RET_OK(exit)"""
    if not (t[0] == "ev" and t[2][0] == "stack_index"):
        return "does not take a slice of the stack"
    rng = t[2][1][0]
    if want_range is not None and rng != want_range:
        return "slice range is %s, expected %s" % (edt.fmt_val(rng), edt.fmt_val(want_range))
    lp = t[3]
    if lp[0] != "loop" or lp[3] != (("cur", "IN"),):
        return "entries are not matched one after another starting at the current position"
    r = classes.loop_range(lp[2])
    if r[0] != "iter":
        return "not a loop over the slice's entries"
    it = r[1]
    if not (contains(it, "stack_slice") and contains(it, ("ev", t[1]))):
        return "loop does not iterate over the slice taken"
    has_rev = contains(it, "Iterator::rev") or contains(it, "rev::Rev")
    if has_rev != want_rev:
        return "entries are matched %s, expected %s" % ("top to bottom (reversed)" if has_rev else "bottom to top",
                                                          "top to bottom (reversed)" if want_rev else "bottom to top")
    lid = lp[1]
    b = lp[4]
    if not (b[0] == "fork" and b[2][0] == "match_string" and b[2][2] == ("loop", lid, 0) and contains(b[2][1][0], "as_str")
            and contains(b[2][1][0], "elem") and b[4] == classes.RET_FAIL
            and b[3] == ("leaf", "CONTINUE", lid, (("cur", ("out", b[1])),))):
        return "loop body is not: match the entry's text, continue after it, fail otherwise"
    if not classes.is_ret_ok(lp[5], ("exit", lid, 0)):
        return "result is not the position after the last entry"
    return None


def run(ctx, ids=("R06-IDX", "R06-OPS", "R06-NOPANIC"), own=True):
    """`ids` lets C01 register the same instances under its own rule ids (the stack built-ins are part of what pest recognises)."""
    fs = facts.load("core")
    world = nodes.World(fs, ["pest_typed"])
    repo, pest = fs["pest_typed"], fs["pest"]
    if own:
        ctx.analysed = {"crates": ["pest_typed", "pest (parser_state.rs)"]}
    ri = ctx.rule(ids[0], "index normalisation (constrain_idxs, normalize_index) is pest's (sibling normal-form equality)")
    for fn in ("constrain_idxs", "normalize_index"):
        rb, pb = repo.body("pest_typed::parser_state::" + fn), pest.body("pest::parser_state::" + fn)
        if rb is None or pb is None:
            ri.violate(fn, "function missing on one side")
            continue
        eq, size, diff = snf.compare(repo, rb, pest, pb, crate_map_a={"pest_typed": "pest"})
        if eq:
            ri.inst(fn, repo.loc(rb["value"].get("sp")), "ok", {"nodes_compared": size})
        else:
            a, b = diff
            ri.violate(fn, "body differs from pest's", a.loc, "repo %s: %s\npest %s: %s" % (a.loc, a.show(), b.loc, b.show()))
    ri.require(2, "functions")

    ro = ctx.rule(ids[1], "each stack built-in uses the right stack operation, direction, emptiness / out-of-range exit")
    rn = ctx.rule(ids[2] or "R06-NOPANIC-unused", "no panic-capable site in the stack nodes except stack[range], dominated by the range checks")
    seen = 0
    fn_ids = []
    for key, pid, cid, loc, im in world.twin_pairs():
        path = im.self_adt()[0]
        if not path.startswith(PN):
            continue
        name = path[len(PN):]
        if name not in ("PEEK", "POP", "DROP", "PEEK_ALL", "POP_ALL", "PeekSlice1", "PeekSlice2", "Push"):
            continue
        for fid, mode in ((pid, "parse"), (cid, "check")):
            fn_ids.append(fid)
            k2 = "%s [%s]" % (name, mode)
            t = world.tree(fid)
            bad = None
            if name in ("PEEK", "POP"):
                bad = check_peek_pop(t, name.lower())
            elif name == "DROP":
                bad = check_drop(t)
            elif name == "PEEK_ALL":
                want = ("range", "Range", (("start", ("lit", "0")), ("end", ("pure", "stack_len", ()))))
                bad = iter_loop(t, True, want)
                if not bad and [o for o in ops(t) if o in WRITES]:
                    bad = "PEEK_ALL writes the stack"
            elif name == "POP_ALL":
                if not (t[0] == "fork" and t[2][0] == "MATCH" and t[2][1][0] == PN + "PEEK_ALL" and t[2][2] == "IN" and t[4] == classes.RET_FAIL):
                    bad = "does not first match like PEEK_ALL at the current position"
                else:
                    lp = t[3]
                    body_ok = (lp[0] == "loop" and lp[4][0] == "fork" and lp[4][2][0] == "pop"
                               and lp[4][3][1] == "CONTINUE" and lp[4][4][1] == "BREAK")
                    if not body_ok:
                        bad = "does not pop until the stack is empty after matching"
                    elif not classes.is_ret_ok(lp[5], ("out", t[1])):
                        bad = "result is not the position after the PEEK_ALL match"
            elif name in ("PeekSlice1", "PeekSlice2"):
                consts = [a for kind, a in im.self_adt()[1] if kind == "c"]
                if not (t[0] == "opq" and t[1][0] == "match" and contains(t[1][1], "constrain_idxs")):
                    bad = "slice bounds are not computed with constrain_idxs"
                else:
                    call = t[1][1]
                    cargs = call[2]
                    want_end = ("some", ("constg", consts[1])) if name == "PeekSlice2" else ("none",)
                    if cargs != (("constg", consts[0]), want_end, ("pure", "stack_len", ())):
                        bad = "constrain_idxs is called with %s, expected (START, END?, stack length)" % (edt.fmt_val(cargs),)
                    arms = dict(t[2])
                    none, some = arms.get("None"), arms.get("Some")
                    if not bad and not (none is not None and none[0] == "ev" and none[2][0] == "out_of_bound" and none[3] == classes.RET_FAIL):
                        bad = "out-of-range slice does not report out_of_bound and fail"
                    if not bad:
                        if not (some is not None and some[0] == "opq" and some[1][0] == "lt"
                                and contains(some[1][1], "field:start") and contains(some[1][2], "field:end")):
                            bad = "no empty-range test (range.end <= range.start) before indexing"
                        else:
                            a2 = dict(some[2])
                            if not classes.is_ret_ok(a2.get("false", ()), "IN"):
                                bad = "empty range does not succeed without consuming"
                            else:
                                bad = iter_loop(a2.get("true"), False)
                                if not bad and not contains(a2["true"][2][1][0], "constrain_idxs"):
                                    bad = "slice indexed with something other than the constrained range"
            elif name == "Push":
                c = classes.classify(t)
                if c["cls"] != "PUSH":
                    bad = "not: match operand, push, succeed after it (class %s)" % c["cls"]
                elif c["pushed"] != (("pure", "Input::span", (("cur", "IN"), ("cur", ("out", t[1])))),):
                    bad = "pushes %s, expected the span from the start to the end of the operand" % edt.fmt_val(c["pushed"][0])
            if bad:
                ro.violate(k2, bad, loc, edt.fmt(t))
            else:
                seen += 1
                ro.inst(k2, loc)
    ro.require(16, "stack node functions")
    if not ids[2]:
        ctx.rules.remove(rn)
        return
    # NOPANIC: HIR scan of these functions and of the helpers they inline
    helpers = set()
    for fid in fn_ids:
        world.ev.inlined = []
        world.ev.eval_fn(fid)
        helpers.update(world.ev.inlined)
    PANICKY = ("core::option::Option::unwrap", "core::option::Option::expect", "core::result::Result::unwrap",
               "core::result::Result::expect", "core::panicking::", "core::slice::<impl [T]>::split_at", "core::str::<impl str>::split_at")
    for fid in sorted(set(fn_ids) | helpers):
        b = repo.body(fid)
        if b is None:
            continue
        for n in walk(b["value"]):
            site = None
            if n["k"] == "index":
                base_ty = repo.tys(n["base"].get("ty"))
                if "pest::stack::Stack<" in base_ty:
                    rn.inst("%s: stack[range]" % fid, repo.loc(n.get("sp")), "ok (position checked by R06-OPS: after constrain_idxs = Some and the empty-range test, or 0..len)")
                    continue
                site = "indexing of %s" % base_ty
            c = n.get("callee")
            if c and strip_generics(c["path"]).startswith(PANICKY):
                site = "call to " + strip_generics(c["path"])
            if site:
                rn.violate("%s: %s" % (fid, site), "panic-capable site in a stack node", repo.loc(n.get("sp")))
    rn.require(3, "index sites")
    if own:
        # the grammar's PUSH / PEEK / POP / DROP / PEEK_ALL / POP_ALL / PEEK[a..b] reach the node of the same role with the same
        # constants, under both generators (seed C06-7: the raw generator emitted PeekSlice2<END, START>): C01's operator map
        from . import c01
        ctx.adopt(c01.run_opmap, {"R01-OPMAP": "R06-OPMAP"})
    ctx.assume("text equality on inputs is match_string's own behaviour (C01/C09 rules)")
    ctx.assume("pest::Stack's Index<Range<usize>> panics only when the range is out of bounds")
    ctx.explanation = ("Stack built-ins are checked on their effect decision trees: which stack operation, on which entry's text, in which "
                       "direction (Rev<..> or not in the iterator term), with which emptiness / out-of-range exit; index arithmetic is shown "
                       "to be pest's own by normal-form equality.")
