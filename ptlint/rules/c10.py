"""C10 — error reports (partial): tracker decision tables, polarity, recording wrappers, panic inventory."""
import itertools

from .. import facts, edt, nodes, classes, inv
from ..hir import walk, strip_generics, pat_binds

T = "pest_typed::tracker::Tracker::<'i, R>::"


class Undecided(Exception):
    pass


def atom_name(c, e):
    inv._LETS = {}
    return inv.short_descr(c, e)


def beval(c, e, env, lets):
    """Evaluate a boolean expression over an assignment of its atoms."""
    k = e["k"]
    if k == "local" and e["var"] in lets:
        return beval(c, lets[e["var"]], env, lets)
    if k == "lit" and "bool" in (e["v"] or {}):
        return e["v"]["bool"]
    if k == "block" and not e.get("stmts") and "tail" in e:
        return beval(c, e["tail"], env, lets)
    if k == "unary" and e["op"] == "!":
        return not beval(c, e["e"], env, lets)
    if k == "binary":
        op = e["op"]
        if op == "&&":
            return beval(c, e["l"], env, lets) and beval(c, e["r"], env, lets)
        if op == "||":
            return beval(c, e["l"], env, lets) or beval(c, e["r"], env, lets)
        if op in ("==", "!="):
            a, b = beval(c, e["l"], env, lets), beval(c, e["r"], env, lets)
            return (a == b) if op == "==" else (a != b)
    name = atom_name(c, e)
    if name in env:
        return env[name]
    raise Undecided("unknown boolean atom `%s`" % name)


def simple_lets(body):
    lets = {}
    for n in walk(body):
        if n["k"] == "block":
            for s in n.get("stmts", []):
                if s["k"] == "let" and s["pat"].get("k") == "bind" and "init" in s:
                    lets[s["pat"]["var"]] = s["init"]
                elif s["k"] == "let" and "init" in s:
                    # `let (a, b, _) = e;` : a is e.0, b is e.1
                    p_ = s["pat"]
                    while p_["k"] in ("ref", "deref"):
                        p_ = p_["p"]
                    if p_["k"] == "tuple":
                        for i_, q in enumerate(p_["ps"]):
                            while q["k"] in ("ref", "deref"):
                                q = q["p"]
                            if q["k"] == "bind":
                                lets[q["var"]] = {"k": "field", "name": str(i_), "base": s["init"]}
    return lets


class _Return(Exception):
    pass


def record_table(c, body):
    """(prepared, succeeded, positive) -> None | 0 | 1 : which list `record` pushes the rule to."""
    lets = simple_lets(body["value"])
    out = {}
    for prepared, succeeded, positive in itertools.product([False, True], repeat=3):
        env = {"self.prepare(pos)": prepared, "succeeded": succeeded, "self.positive": positive, "positive": positive}
        pushes = []

        def run(e):
            k = e["k"]
            if k == "block":
                for s in e.get("stmts", []):
                    if s["k"] == "expr":
                        run(s["e"])
                    elif s["k"] == "let" and "init" in s and s["init"]["k"] in ("if", "match", "block"):
                        pass
                if "tail" in e:
                    run(e["tail"])
            elif k == "if":
                cond = e["cond"]
                try:
                    v = beval(c, cond, env, lets)
                except Undecided as ex:
                    nm = atom_name(c, cond)
                    if "same_with_last" in nm:
                        v = not nm.startswith("!") if False else ("!" in nm[:1])   # `!same_with_last(..)`: assume the rule is new
                    else:
                        raise
                if v:
                    run(e["then"])
                elif "else" in e:
                    run(e["else"])
            elif k == "mcall" and e["name"] == "push":
                pushes.append(list_index(c, e["recv"], env, lets))
            elif k == "ret":
                raise _Return()
            elif k in ("call", "mcall"):
                pass
        try:
            run(body["value"])
        except _Return:
            pass
        if len(pushes) > 1:
            raise Undecided("more than one push on one path")
        out[(prepared, succeeded, positive)] = pushes[0] if pushes else None
    return out


def list_index(c, e, env, lets):
    """Resolve the receiver of `push` to the tuple field (0 or 1) of the entry it selects."""
    k = e["k"]
    if k == "local" and e["var"] in lets:
        return list_index(c, lets[e["var"]], env, lets)
    if k in ("addr_of",):
        return list_index(c, e["e"], env, lets)
    if k == "unary" and e["op"] == "*":
        return list_index(c, e["e"], env, lets)
    if k == "block" and not e.get("stmts") and "tail" in e:
        return list_index(c, e["tail"], env, lets)
    if k == "if":
        v = beval(c, e["cond"], env, lets)
        return list_index(c, e["then"] if v else e["else"], env, lets)
    if k == "field" and e["name"] in ("0", "1", "2"):
        return int(e["name"])
    raise Undecided("cannot resolve the list that is pushed to (%s)" % atom_name(c, e))


def message_rule(rule, repo):
    from .. import fmtargs
    from ..hir import pat_binds
    fid = "<pest_typed::tracker::SpecialError as alloc::string::ToString>::to_string"
    b = repo.body(fid)
    if b is None:
        cands = [f for f in repo.bodies if "SpecialError" in f and ("to_string" in f or "::fmt" in f)]
        if not cands:
            rule.violate("SpecialError", "no message function found (anchor lost)")
            return
        fid = cands[0]
        b = repo.body(fid)

    def peel(e):
        while e["k"] in ("addr_of", "use", "cast") or (e["k"] == "unary" and e.get("op") == "*") or (e["k"] == "block" and not e.get("stmts") and "tail" in e):
            e = e["tail"] if e["k"] == "block" else e["e"]
        return e

    def fmt_calls(e):
        return [n for n in walk(e) if n["k"] in ("call", "mcall") and n.get("callee") and
                strip_generics(n["callee"]["path"]) in ("alloc::fmt::format", "core::fmt::Write::write_fmt", "core::fmt::Formatter::write_fmt")]

    def visit(e, pos, variant):
        """pos: var -> payload position"""
        e = peel(e)
        if e["k"] == "match" and e.get("src") == "normal":
            scr = peel(e["scrut"])
            for arm in e["arms"]:
                p2 = dict(pos)
                v2 = variant
                pat = arm["pat"]
                while pat["k"] in ("ref", "deref"):
                    pat = pat["p"]
                if pat["k"] == "tstruct":
                    name = pat["res"].get("path", "?").rsplit("::", 1)[-1]
                    if scr["k"] == "local" and scr["var"] in pos:
                        # an inner test of a payload field (`match end { Some(end) => .. }`): what it binds is that field
                        for bnd in pat_binds(pat):
                            p2[bnd["var"]] = pos[scr["var"]]
                    else:
                        v2 = name
                        p2 = {}
                        for i, sub in enumerate(pat.get("ps", [])):
                            for bnd in pat_binds(sub):
                                p2[bnd["var"]] = i
                elif pat["k"] in ("expr", "path") and not (scr["k"] == "local" and scr["var"] in pos):
                    v2 = (pat.get("res") or {}).get("path", "?").rsplit("::", 1)[-1]
                    p2 = {}
                visit(arm["body"], p2, v2)
            return
        calls = fmt_calls(e)
        if not calls or not pos:
            return
        for cnode in calls:
            ps = fmtargs.pieces(cnode)
            key = "%s: %s" % (variant, " ".join(x if isinstance(x, str) else "{}" for x in (ps or []))[:60])
            loc = repo.loc(cnode.get("sp"))
            if ps is None:
                rule.violate(key, "message template cannot be decoded", loc)
                continue
            order = []
            for x in ps:
                if isinstance(x, tuple):
                    v = peel(x[1])
                    order.append(pos.get(v.get("var")) if v["k"] == "local" else None)
            avail = sorted(set(pos.values()))
            if None in order:
                rule.violate(key, "a placeholder prints something that is not a payload field of %s" % variant, loc)
            elif order != sorted(order) or len(set(order)) != len(order):
                rule.violate(key, "payload fields of %s are printed in the order %s, declared order is %s" % (variant, order, avail), loc)
            elif not order:
                rule.violate(key, "the message of %s prints none of its payload" % variant, loc)
            else:
                rule.inst(key, loc, "ok", {"payload_positions": order})
    visit(b["value"], {}, "?")


def run(ctx):
    fs = facts.load("core", "fx_macros")
    c = fs["pest_typed"]
    world = nodes.World(fs, ["pest_typed", "fx_macros"])
    ctx.analysed = {"crates": ["pest_typed", "fx_macros"]}
    rt = ctx.rule("R10-TABLE", "finite evaluation of the tracker's decision functions: record (which list, when), prepare (Less/Equal/Greater), "
                               "polarity save/restore, record_during_with (push/pop, leaf-only recording), Expected/Unexpected labelling")
    # ---- record
    b = c.body(T + "record")
    loc = c.loc(b["value"].get("sp")) if b else None
    if b is None:
        rt.violate("record", "Tracker::record missing (anchor lost)")
    else:
        try:
            tab = record_table(c, b)
            bad = []
            for (prepared, succeeded, positive), got in sorted(tab.items()):
                want = None
                if prepared and positive and not succeeded:
                    want = 0
                if prepared and (not positive) and succeeded:
                    want = 1
                if got != want:
                    bad.append("prepared=%s succeeded=%s positive=%s -> %s (expected %s)" % (prepared, succeeded, positive,
                               "nothing" if got is None else "list %d" % got, "nothing" if want is None else "list %d" % want))
            if bad:
                rt.violate("record", "decision table of Tracker::record is wrong: " + "; ".join(bad), loc)
            else:
                rt.inst("record", loc, "ok", {"table": "expected-list iff prepared & positive & failed; unexpected-list iff prepared & negative & succeeded", "rows": 8})
        except Undecided as ex:
            rt.violate("record", "cannot evaluate Tracker::record over its boolean inputs: %s" % ex, loc)
    # ---- labels: list 0 printed under Expected, list 1 under Unexpected
    b = c.body(T + "collect_to_message")
    if b is None:
        rt.violate("labels", "collect_to_message missing")
    else:
        # closure param pattern (rule, (positives, negatives, special)) -> variable names by tuple index
        names = {}
        for n in walk(b["value"]):
            if n["k"] == "closure":
                for p in n["params"]:
                    if p["k"] == "tuple" and len(p["ps"]) == 2 and p["ps"][1]["k"] == "tuple":
                        for i, sp in enumerate(p["ps"][1]["ps"]):
                            for bd in pat_binds(sp):
                                names[bd["var"]] = i
        # the four-way table on (positives.is_empty(), negatives.is_empty()): an arm prints exactly the lists its pattern says are
        # non-empty, list 0 after "Expected" / "expected", list 1 after "Unexpected" (templates decoded from format_args!)
        from .. import fmtargs

        def which(e):
            e2 = e
            while e2["k"] in ("addr_of", "use", "cast"):
                e2 = e2["e"]
            ls = [names[m["var"]] for m in walk(e2) if m["k"] == "local" and m["var"] in names]
            return ls[0] if len(ls) == 1 else None

        bad = []
        found = {}
        tables = [n for n in walk(b["value"]) if n["k"] == "match" and n.get("src") == "normal" and n["scrut"]["k"] == "tuple"
                  and len(n["scrut"]["es"]) == 2 and all(x["k"] == "mcall" and x.get("name") == "is_empty" for x in n["scrut"]["es"])]
        if len(tables) != 1 or not names:
            bad.append("no match on (positives.is_empty(), negatives.is_empty()) found")
        else:
            m = tables[0]
            if [which(x["recv"]) for x in m["scrut"]["es"]] != [0, 1]:
                bad.append("the table is not indexed by (is_empty(list 0), is_empty(list 1))")
            seen = set()
            for arm in m["arms"]:
                pat = arm["pat"]
                flags = []
                if pat["k"] == "tuple" and len(pat["ps"]) == 2:
                    for q in pat["ps"]:
                        v = (q.get("lit") or {}).get("bool") if q["k"] == "expr" else None
                        flags.append(None if v is None else str(v).lower() == "true")
                if len(flags) != 2 or None in flags:
                    bad.append("an arm of the table is not a pair of boolean literals")
                    continue
                seen.add(tuple(flags))
                want = [i for i, empty in ((1, flags[1]), (0, flags[0])) if not empty]      # negatives first, as printed today
                ps = fmtargs.pieces(arm["body"])
                if ps is None:
                    bad.append("the template of arm %s cannot be decoded" % (flags,))
                    continue
                printed = []
                prev = ""
                for x in ps:
                    if isinstance(x, str):
                        prev = x
                        continue
                    li = which(x[1])
                    printed.append(li)
                    lab = prev.lower().rstrip()
                    if li == 0 and not (lab.endswith("expected") and not lab.endswith("unexpected")):
                        bad.append("arm %s prints the expected-list after %r" % (flags, prev))
                    if li == 1 and not lab.endswith("unexpected"):
                        bad.append("arm %s prints the unexpected-list after %r" % (flags, prev))
                found[str(tuple(flags))] = printed
                if sorted(x for x in printed if x is not None) != sorted(want) or None in printed:
                    bad.append("arm %s prints lists %s, its pattern says %s are non-empty" % (flags, printed, sorted(want)))
            if seen != {(True, True), (True, False), (False, True), (False, False)}:
                bad.append("the table does not have the four arms")
        if not bad:
            rt.inst("labels", c.loc(b["value"].get("sp")), "ok", {"arms": found})
        else:
            rt.violate("labels", "the Expected / Unexpected table of the message is off: %s" % "; ".join(sorted(set(bad))), c.loc(b["value"].get("sp")))
    # ---- prepare
    b = c.body(T + "prepare")
    if b is None:
        rt.violate("prepare", "Tracker::prepare missing")
    else:
        res = {}
        cmpnode = None
        for n in walk(b["value"]):
            if n["k"] == "match" and n.get("src") == "normal":
                sc = n["scrut"]
                if sc["k"] in ("mcall", "call") and sc.get("callee") and strip_generics(sc["callee"]["path"]).endswith("Ord::cmp"):
                    cmpnode = n
        if cmpnode is None:
            rt.violate("prepare", "no comparison of the attempt position with the furthest position", c.loc(b["value"].get("sp")))
        else:
            sc = cmpnode["scrut"]
            args = ([sc["recv"]] if sc["k"] == "mcall" else []) + sc["args"]
            inv._LETS = inv.collect_lets(b["value"])
            a0, a1 = inv.short_descr(c, args[0]), inv.short_descr(c, args[1])
            swapped = "self.position" in a0
            for arm in cmpnode["arms"]:
                name = arm["pat"].get("res", {}).get("path", "_").rsplit("::", 1)[-1]
                if swapped:
                    name = {"Less": "Greater", "Greater": "Less"}.get(name, name)
                val = None
                effects = []
                body = arm["body"]
                tail = body
                if body["k"] == "block":
                    for s in body.get("stmts", []):
                        if s["k"] == "expr":
                            e = s["e"]
                            if e["k"] == "mcall":
                                effects.append(e["name"])
                            elif e["k"] == "assign":
                                effects.append("set " + inv.short_descr(c, e["l"]))
                    tail = body.get("tail", body)
                if tail["k"] == "lit":
                    val = tail["v"].get("bool")
                res[name] = (val, tuple(effects))
            want = {"Less": (False, ()), "Equal": (True, ()), "Greater": (True, ("clear", "set self.position"))}
            if res == want:
                rt.inst("prepare", c.loc(b["value"].get("sp")), "ok", {k: list(v) for k, v in res.items()})
            else:
                rt.violate("prepare", "prepare's table is %s, expected Less: ignore, Equal: keep, Greater: clear attempts + move position" % res,
                           c.loc(b["value"].get("sp")))
    # ---- during: positive is saved, set to the const, restored after the closure; no other writer
    b = c.body(T + "during")
    if b is None:
        rt.violate("during", "Tracker::during missing")
    else:
        # ordered effects on `self.positive`: save, set to the const parameter, run the closure, restore the saved value
        def is_self_positive(e):
            while e["k"] in ("addr_of", "use") or (e["k"] == "unary" and e.get("op") == "*"):
                e = e["e"]
            return e["k"] == "field" and e["name"] == "positive" and e["base"]["k"] == "local" and e["base"].get("name") == "self"

        def is_const_param(e):
            while e["k"] in ("use", "cast") or (e["k"] == "block" and not e.get("stmts") and "tail" in e):
                e = e["tail"] if e["k"] == "block" else e["e"]
            return e["k"] == "def" and e.get("kind") == "ConstParam"
        seq = []
        saved = None
        top = b["value"]
        items = [(s_, s_.get("init") if s_["k"] == "let" else s_.get("e")) for s_ in top.get("stmts", [])]
        if "tail" in top:
            items.append((None, top["tail"]))
        for st_, ex in items:
            if ex is None:
                continue
            core = ex
            while core["k"] in ("use",) or (core["k"] == "block" and not core.get("stmts") and "tail" in core):
                core = core["tail"] if core["k"] == "block" else core["e"]
            cal = core.get("callee") if core["k"] in ("call", "mcall") else None
            if st_ is not None and st_["k"] == "let" and is_self_positive(core):
                saved = st_["pat"].get("var")
                seq.append("save")
            elif cal and strip_generics(cal["path"]) in ("core::mem::replace", "std::mem::replace") and is_self_positive(core["args"][0]):
                if st_ is not None and st_["k"] == "let":
                    saved = st_["pat"].get("var")
                    seq.append("save")
                seq.append("set:const" if is_const_param(core["args"][1]) else "set:other")
            elif core["k"] == "assign" and is_self_positive(core["l"]):
                r_ = core["r"]
                if r_["k"] == "local" and r_.get("var") == saved:
                    seq.append("restore")
                elif is_const_param(r_):
                    seq.append("set:const")
                else:
                    seq.append("set:other")
            elif any(m.get("callee") and strip_generics(m["callee"]["path"]).endswith("FnOnce::call_once") for m in walk(core)):
                seq.append("call")
            elif any(m["k"] in ("assign", "assign_op") and is_self_positive(m["l"]) for m in walk(core)):
                seq.append("write:nested")
        if seq == ["save", "set:const", "call", "restore"]:
            rt.inst("during", c.loc(b["value"].get("sp")), "ok", {"sequence": seq})
        else:
            rt.violate("during", "polarity is not saved / set to the const parameter / restored around the closure: %s" % seq, c.loc(b["value"].get("sp")))
    writers = []
    for fid in c.bodies:
        if fid.startswith("pest_typed::tracker::") and "::tests::" not in fid:
            for n in walk(c.body(fid)["value"]):
                if n["k"] in ("assign", "assign_op") and n["l"]["k"] == "field" and n["l"]["name"] == "positive":
                    writers.append(fid.rsplit("::", 1)[-1])
    if sorted(set(writers)) == ["during"]:
        rt.inst("positive: writers", None, "ok", {"writers": sorted(set(writers))})
    else:
        rt.violate("positive: writers", "field `positive` is written in %s, expected only in `during`" % sorted(set(writers)))
    # ---- record_during_with: ordered effects
    b = c.body(T + "record_during_with")
    if b is None:
        rt.violate("record_during_with", "missing")
    else:
        effs = []
        TP = strip_generics(T)

        def collect(body, depth):
            for n, guards in inv.walk_guarded(c, body["value"]):
                if n["k"] in ("mcall", "call") and n.get("callee"):
                    p = strip_generics(n["callee"]["path"])
                    nm = p.rsplit("::", 1)[-1]
                    if p.startswith("alloc::vec::Vec::") and nm in ("push", "pop", "last_mut"):
                        effs.append(nm)
                    elif nm in ("call_once", "call_mut"):
                        effs.append("f")
                    elif p == strip_generics(T + "record"):
                        inv._LETS = inv.collect_lets(body["value"])
                        effs.append("record under " + " && ".join(guards))
                    elif p.startswith(TP) and depth < 2 and nm not in ("prepare", "get_entry"):
                        # a private helper of the tracker (e.g. the parent-marking step extracted into a method): its effects happen here
                        hb = next((c.body(f) for f in c.bodies if strip_generics(f) == p), None)
                        if hb is not None:
                            saved = inv._LETS
                            collect(hb, depth + 1)
                            inv._LETS = saved
                if n["k"] == "assign":
                    inv._LETS = {}
                    effs.append("set " + inv.short_descr(c, n["l"]) + " under " + " && ".join(guards))
        collect(b, 0)
        shape = [e.split(" under ")[0] for e in effs]
        rec_guard = [e for e in effs if e.startswith("record under")]
        first_set = [i for i, e in enumerate(effs) if e.startswith("set ") and "last_mut()~Some" in e]
        ok = (shape.count("push") == 1 and shape.count("pop") == 1 and shape.count("f") == 1 and len(rec_guard) == 1
              and shape.index("push") < shape.index("f") < shape.index("pop") < shape.index("record")
              and rec_guard[0].split(" under ")[1].startswith("!")
              and first_set and first_set[0] < shape.index("push"))
        if ok:
            rt.inst("record_during_with", c.loc(b["value"].get("sp")), "ok", {"effects": effs})
        else:
            rt.violate("record_during_with", "frame push / closure / pop / leaf-only record are not in that order: %s" % effs, c.loc(b["value"].get("sp")))
    # ---- the values that flow through the frame stack (mutation scan: `*has_children = false`, `succeeded = res.is_none()`,
    #      `positive: false` in new(), `upper_pos == pos` in get_entry were invisible to the ordered-effect rule above)
    from .c15 import Terms

    def lit_bool(t):
        return t[0] == "lit" and t[1] == "bool" and str(t[2]).lower() or None

    b = c.body(T + "record_during_with")
    if b is not None:
        tm = Terms(c, b)
        bad = []
        pushes = [n for n in walk(b["value"]) if n["k"] == "mcall" and n.get("callee") and strip_generics(n["callee"]["path"]) == "alloc::vec::Vec::push"]
        if len(pushes) == 1:
            t = tm.t(pushes[0]["args"][0])
            if not (t[0] == "tuple" and len(t) == 4 and t[1] == ("param", "rule") and t[2][:2] == ("call", "pest_typed::input::Input::byte_offset")
                    and t[2][2] == ("param", "pos") and lit_bool(t[3]) == "false"):
                bad.append("the frame pushed is not (rule, pos.byte_offset(), false)")
        else:
            bad.append("%d frame pushes" % len(pushes))
        marks = [(n, tm) for n in walk(b["value"]) if n["k"] == "assign"]
        for n in walk(b["value"]):        # the marking step may live in a private helper of the tracker (`self.mark_parent()`)
            if n["k"] in ("call", "mcall") and n.get("callee") and strip_generics(n["callee"]["path"]).startswith(strip_generics(T)) and \
                    strip_generics(n["callee"]["path"]).rsplit("::", 1)[-1] not in ("record", "prepare", "get_entry"):
                hb = next((c.body(f) for f in c.bodies if strip_generics(f) == strip_generics(n["callee"]["path"])), None)
                if hb is not None:
                    marks += [(m, Terms(c, hb)) for m in walk(hb["value"]) if m["k"] == "assign"]
        if len(marks) != 1 or lit_bool(marks[0][1].t(marks[0][0]["r"])) != "true":
            bad.append("the enclosing frame is not marked `has_children = true`")
        recs = [n for n in walk(b["value"]) if n["k"] in ("call", "mcall") and n.get("callee") and strip_generics(n["callee"]["path"]) == strip_generics(T + "record")]
        if len(recs) == 1:
            a = ([recs[0]["recv"]] if recs[0]["k"] == "mcall" else []) + recs[0]["args"]
            ts = [tm.t(x) for x in a]
            okr = len(ts) == 4 and ts[1] == ("param", "rule") and ts[2] == ("param", "pos") and ts[3][0] == "call" and \
                ts[3][1].endswith("Option::is_some") and "call_once" in repr(ts[3])
            if not okr:
                bad.append("record is not called with (rule, pos, <closure result>.is_some())")
        if bad:
            rt.violate("record_during_with: values", "; ".join(bad), c.loc(b["value"].get("sp")))
        else:
            rt.inst("record_during_with: values", c.loc(b["value"].get("sp")), "ok")
    b = c.body(T + "new")
    if b is not None:
        tm = Terms(c, b)
        st = [n for n in walk(b["value"]) if n["k"] == "struct"]
        fl = {f["name"]: tm.t(f["e"]) for f in st[0]["fields"]} if st else {}
        bad = []
        if lit_bool(fl.get("positive", ("?",))) != "true":
            bad.append("a new tracker does not start positive")
        if fl.get("position", ("?",))[:2] != ("call", "pest_typed::input::Input::as_position"):
            bad.append("a new tracker does not start at the given position")
        if fl.get("attempts", ("?",))[:2] != ("call", "alloc::collections::btree::map::BTreeMap::new"):
            bad.append("a new tracker does not start without attempts")
        (rt.violate("new", "; ".join(bad), c.loc(b["value"].get("sp"))) if bad else rt.inst("new", c.loc(b["value"].get("sp")), "ok"))
    for nm, wantc in (("positive_during", "true"), ("negative_during", "false")):
        b = c.body(T + nm)
        if b is None:
            rt.violate(nm, "missing (anchor lost)")
            continue
        cs = [a["c"] for n in walk(b["value"]) if n.get("callee") and strip_generics(n["callee"]["path"]) == strip_generics(T + "during")
              for a in n["callee"].get("args", []) if "c" in a]
        if cs == [wantc]:
            rt.inst(nm, c.loc(b["value"].get("sp")), "ok", {"polarity": wantc})
        else:
            rt.violate(nm, "runs its closure under polarity %s, expected `during::<_, %s>`" % (cs or "?", wantc), c.loc(b["value"].get("sp")))
    # prepare's "clear" really forgets the older attempts (mutation scan: the body of Tracker::clear emptied)
    clear_ok = False
    for fid_, bs_ in c.bodies.items():
        if strip_generics(fid_) == strip_generics(T + "prepare") or strip_generics(fid_) == strip_generics(T + "clear"):
            for n in walk(bs_[0]["value"]):
                if n["k"] == "mcall" and n.get("callee") and strip_generics(n["callee"]["path"]).endswith("BTreeMap::clear"):
                    r_ = n["recv"]
                    while r_["k"] in ("addr_of", "use", "cast"):
                        r_ = r_["e"]
                    if r_["k"] == "field" and r_["name"] == "attempts":
                        clear_ok = True
    if clear_ok:
        rt.inst("clear", None, "ok", {"clears": "self.attempts"})
    else:
        rt.violate("clear", "neither prepare nor Tracker::clear empties `self.attempts`: attempts recorded at an earlier position would be "
                            "reported at a later one")
    b = c.body(T + "get_entry")
    if b is not None:
        conds = [n for n in walk(b["value"]) if n["k"] == "binary" and n.get("op") in ("==", "!=", "<", ">", "<=", ">=")]
        revs = [n for n in walk(b["value"]) if n["k"] == "mcall" and n.get("name") == "rev"]
        bad = []
        if len(conds) != 1 or conds[0]["op"] != "!=":
            bad.append("the enclosing rule is not the nearest frame whose position *differs* (`!=`) from the failure position")
        if len(revs) != 1:
            bad.append("frames are not searched from the top of the stack (`.rev()`)")
        (rt.violate("get_entry", "; ".join(bad), c.loc(b["value"].get("sp"))) if bad else rt.inst("get_entry", c.loc(b["value"].get("sp")), "ok"))
    # ---- furthest-position bookkeeping: only `prepare` moves the position, and every recorded attempt passed `prepare`
    pos_writers = []
    entry_sites = []
    for fid in c.bodies:
        if fid.startswith("pest_typed::tracker::") and "::tests::" not in fid:
            b = c.body(fid)
            for n, guards in inv.walk_guarded(c, b["value"]):
                if n["k"] in ("assign", "assign_op") and n["l"]["k"] == "field" and n["l"]["name"] == "position":
                    pos_writers.append(fid.rsplit("::", 1)[-1])
                cal = n.get("callee")
                if cal and strip_generics(cal["path"]) == strip_generics(T + "get_entry"):
                    inv._LETS = {}
                    entry_sites.append((fid.rsplit("::", 1)[-1], " && ".join(guards), c.loc(n.get("sp"))))
    if sorted(set(pos_writers)) == ["prepare"]:
        rt.inst("position: writers", None, "ok", {"writers": ["prepare"]})
    else:
        rt.violate("position: writers", "the furthest position is written in %s, expected only in `prepare` (which clears older attempts when it advances)" % sorted(set(pos_writers)))
    for fn, g, loc in entry_sites:
        key = "attempt recorded in " + fn
        if "self.prepare(pos)" in g:
            rt.inst(key, loc, "ok", {"guard": g})
        else:
            rt.violate(key, "an attempt list is filled without passing `prepare(pos)` (guard: %s): attempts of an earlier position may be reported at a later one" % (g or "none"), loc)
    rt.require(7, "decision functions")   # 11 today; the named functions are anchored individually, merged helpers lower the count

    # ---- special errors are recorded exactly where their condition holds
    rsp = ctx.rule("R10-SPECIAL", "a special error is recorded only where it is true: `empty_stack` directly in the failure branch of a stack peek / pop, "
                   "`out_of_bound` directly in the None branch of constrain_idxs, `repeat_too_many_times` nowhere on a path that matched")
    STACK_READS = ("peek", "pop")

    def walk_special(t, ctx_path, found):
        tag = t[0]
        if tag == "ev":
            lab = t[2][0]
            if lab in ("empty_stack", "out_of_bound", "repeat_too_many_times"):
                found.append((lab, ctx_path[-1] if ctx_path else None))
            walk_special(t[3], ctx_path + [("after", lab)], found)
        elif tag == "fork":
            lab = t[2][0]
            walk_special(t[3], ctx_path + [("ok", lab)], found)
            walk_special(t[4], ctx_path + [("fail", lab)], found)
        elif tag == "opq":
            cond = repr(t[1])
            for arm, sub in t[2]:
                walk_special(sub, ctx_path + [("arm:" + str(arm), cond)], found)
        elif tag == "loop":
            walk_special(t[4], ctx_path + [("loop", "")], found)
            walk_special(t[5], ctx_path + [("afterloop", "")], found)
        elif tag == "unm":
            walk_special(t[2], ctx_path, found)
    n_special = 0
    for key, pid, cid, loc, im in world.twin_pairs():
        for fid, mode in ((pid, "parse"), (cid, "check")):
            try:
                t = world.tree(fid)
            except edt.Unsupported:
                continue
            found = []
            walk_special(t, [], found)
            for lab, parent in found:
                n_special += 1
                k2 = "%s [%s] %s" % (key, mode, lab)
                okp = False
                if lab == "empty_stack":
                    okp = parent is not None and parent[0] == "fail" and parent[1] in STACK_READS
                elif lab == "out_of_bound":
                    okp = parent is not None and parent[0].startswith("arm:") and "constrain_idxs" in parent[1] and parent[0][4:].lower() in ("none", "_", "false")
                elif lab == "repeat_too_many_times":
                    okp = parent is not None and parent[0] in ("ok", "after", "afterloop", "arm:true", "arm:false")
                if okp:
                    rsp.inst(k2, loc, "ok", {"recorded under": "%s of %s" % (parent[0], parent[1][:80])})
                else:
                    rsp.violate(k2, "`%s` is recorded %s: the report would state it although it need not be true there" % (
                        lab, ("under %s of %s" % (parent[0], parent[1][:120])) if parent else "unconditionally"), loc, edt.fmt(t))
    rsp.require(10, "recording sites")
    # what a special error says: the message of a variant with payload prints every payload position once, in declaration order
    # (seed C10-7: "Peek slice {}..{}" printed with end and start swapped — the report names a slice the grammar never asked for)
    rmsg = ctx.rule("R10-MSG", "SpecialError's message for a variant prints that variant's payload fields, each once, in declaration order")
    message_rule(rmsg, fs["pest_typed"])
    rmsg.require(2, "messages with payload")
    # the reported line / column and the echoed line come from Position::{line_col, line_of}: pest's (C12's instances)
    from . import c12_c13
    rln = ctx.rule("R10-LINES", "the line helpers that give the report its line, column and echoed text are pest's (C12's instances)")
    c12_c13.compare_pairs(ctx, rln, facts.load("core"), ["position::Position::<'i>::line_col", "position::Position::<'i>::line_of", "position::Position::<'i>::find_line_start", "position::Position::<'i>::find_line_end"])
    rln.require(4, "helpers")

    # ---- polarity & wrap on EDTs
    rp = ctx.rule("R10-POLARITY", "positive look-ahead runs its operand under polarity true, negative look-ahead under polarity false")
    rw = ctx.rule("R10-WRAP", "both twins of every non-silent rule wrap the inner match in a recording scope at the rule's start with its own RULE; silent rules do not")
    for key, pid, cid, loc, im in world.twin_pairs():
        if "::unicode::" in key:
            continue
        for fid, mode in ((pid, "parse"), (cid, "check")):
            t = world.tree(fid)
            cls = classes.classify(t)
            evs = list(classes.events(t))
            pol = [e for e in evs if e[2][0] == "enter_polarity"]
            k2 = "%s [%s]" % (key, mode)
            if cls["cls"] in ("POS", "NEG"):
                want = cls["cls"] == "POS"
                child = [e for e in evs if e[2][0] == "MATCH"]
                if len(pol) == 1 and pol[0][2][1][0] is want and child and pol[0][1] < child[0][1]:
                    rp.inst(k2, loc, "ok", {"class": cls["cls"], "polarity": want})
                else:
                    rp.violate(k2, "class %s but its operand runs under polarity %s" % (cls["cls"], [e[2][1][0] for e in pol]), loc, edt.fmt(t))
            elif pol:
                rp.violate(k2, "polarity switched in a node that is not a look-ahead (class %s)" % cls["cls"], loc, edt.fmt(t))
            if im.trait == nodes.TN_TRAIT and im.crate.name == "fx_macros" and "::arity13::" not in im.self_ty:
                name = im.self_adt()[0].rsplit("::", 1)[-1]
                silent = name in ("S", "S2")
                recs = [e for e in evs if e[2][0] == "enter_record"]
                self_ty = world.ev.render(im.crate, im.item["self_ty"], {})
                if silent:
                    if recs:
                        rw.violate(k2, "silent rule records itself with the tracker", loc, edt.fmt(t))
                    else:
                        rw.inst(k2, loc, "ok (silent: no record)")
                else:
                    first = t
                    ok = (first[0] == "ev" and first[2][0] == "enter_record" and first[2][2] == "IN"
                          and first[2][1][0] == ("RULE_OF", self_ty) and first[2][1][1] == ("tracker", "main")
                          and first[3][0] == "fork" and first[3][2][0] == "MATCH" and len(recs) == 1)
                    if ok:
                        rw.inst(k2, loc, "ok", {"rule": self_ty})
                    else:
                        rw.violate(k2, "non-silent rule does not wrap its inner match in record(rule = its own RULE, position = start)", loc, edt.fmt(t))
    rp.require(4, "look-ahead functions")
    rw.require(20, "rule struct functions")
    # ---- the end-of-input attempt of the full-parse wrappers is recorded at the cursor where it is tested
    from . import c04
    re_ = ctx.rule("R10-EOI", "full-parse wrappers record the end-of-input attempt under Rule::EOI at the position where it is tested "
                              "(after prefix match and trailing skip), never before the consumed prefix")
    for im in world.impls(nodes.PTN_TRAIT):
        name = im.self_adt()[0].rsplit("::", 1)[-1]
        want = True if name in c04.SKIPPING_FIXTURE_RULES else (False if name in c04.ATOMIC_FIXTURE_RULES else None)
        self_ty = world.ev.render(im.crate, im.item["self_ty"], {})
        for meth in ("try_parse_with", "try_check_with"):
            fid = im.methods.get(meth)
            if fid is None:
                continue
            t = world.tree(fid)
            ok, why, info = c04.wrap_shape(t, self_ty, None)
            k2 = "%s::%s" % (im.key(), meth)
            if ok:
                re_.inst(k2, im.loc, "ok", info)
            else:
                re_.violate(k2, why, im.loc, edt.fmt(t))
    for fn in ("parse", "check", "parse_without_ignore", "check_without_ignore"):
        fid = "pest_typed::rule::" + fn
        t = world.tree(fid)
        ok, why, info = c04.wrap_shape(t, "_Self", None)
        if ok:
            re_.inst(fid, world.fn_loc(fid), "ok", info)
        else:
            re_.violate(fid, why, world.fn_loc(fid), edt.fmt(t))
    re_.require(24, "wrapper functions")

    # ---- panic inventory from collect
    rpn = ctx.rule("R10-PANIC", "panic-capable sites reachable from Tracker::collect are discharged; collect validates the position with pest::Position::new")
    g = inv.CallGraph([c])
    t1 = inv.load_table("discharge_c09.json")
    t2 = inv.load_table("discharge_c14.json")
    entry = T + "collect"
    for fid in sorted(g.reachable([entry])):
        if "::tests::" in fid:
            continue
        for s in inv.keyed(list(inv.sites(c, fid, g.bodies[fid], {"panic", "usub", "div", "debug"})), fid):
            r = t1.get(s["key"]) or t2.get(s["key"])
            if r:
                rpn.inst(s["key"], s["loc"], "discharged", r)
            else:
                rpn.violate(s["key"], "undischarged %s site reachable from Tracker::collect" % s["kind"], s["loc"])
    b = c.body(entry)
    guard_ok = False
    if b:
        for n in walk(b["value"]):
            cal = n.get("callee")
            if cal and strip_generics(cal["path"]) == "pest::position::Position::new":
                guard_ok = True
    if guard_ok:
        rpn.inst("collect: position validated", c.loc(b["value"].get("sp")))
    else:
        rpn.violate("collect: position validated", "Tracker::collect builds the error without validating the position through pest::Position::new")
    rpn.require(5, "sites")
    ctx.assume("'not before the consumed prefix' and truthfulness on inputs are not decided; pest::error::Error's Display is pest's code")
    ctx.explanation = ("The tracker's small decision functions are evaluated over all assignments of their boolean / ordering inputs from "
                       "typed HIR; polarity constants and recording scopes are read off the effect decision trees of the look-ahead nodes and "
                       "of every rule-macro expansion; panic-capable sites reachable from Tracker::collect are discharged by key.")
