"""R20-TNAMES: every path a generator template emits resolves — statically, from the recovered quote! templates.

 * `<root>::generics::Name`      -> Name is defined by the `pub mod generics { .. }` template (types, `pub use` list) or is a
                                    dynamic SeqN/ChoiceN name whose arity is recorded for the same module template
 * `::pest_typed::a::b::Name`    -> a public item (or public re-export) of pest_typed
 * `::pest_typed::name!`         -> an exported macro of pest_typed
"""
import re

from . import tpl, inv
from .hir import walk, strip_generics

GEN = "pest_typed_generator::"


def const_template(gen, fn_id):
    """Tokens of a helper that returns one fixed template (e.g. pest_typed() -> `::pest_typed`)."""
    b = gen.body(fn_id)
    if b is None:
        return None
    ts = tpl.templates(gen, b)
    if len(ts) == 1 and all(t[0] in ("ident", "punct") for t in ts[0]["tokens"]):
        return ts[0]["tokens"]
    return None


def expand(gen, toks, cache):
    """Replace holes that are calls of fixed-template helpers by their tokens."""
    out = []
    for t in toks:
        if t[0] == "hole":
            node = t[2]
            while node["k"] in ("addr_of", "use"):
                node = node["e"]
            target = None
            if node["k"] == "local":
                d = inv._LETS.get(node.get("var"))
                if d and d[0] == "let":
                    node = d[1]
            if node["k"] == "call" and node.get("callee") and not node["args"]:
                target = node["callee"]["path"]
            if target and target.startswith(GEN):
                if target not in cache:
                    cache[target] = const_template(gen, target)
                if cache[target] is not None:
                    out.extend(cache[target])
                    continue
            out.append(("hole", t[1]))
        elif t[0] == "group":
            out.append(("group", t[1], expand(gen, t[2], cache)))
        elif t[0] == "rep":
            out.append(("rep", expand(gen, t[1], cache), t[2]))
        else:
            out.append(t)
    return out


def paths_in(toks):
    """Maximal `a :: b :: c` runs (idents / holes joined by ::), with a flag for a trailing `!`."""
    res = []
    fl = list(tpl.flat(toks))
    i = 0
    n = len(fl)
    while i < n:
        t = fl[i]
        start_colon = t == ("punct", "::")
        j = i + 1 if start_colon else i
        segs = []
        while j < n and fl[j][0] in ("ident", "hole"):
            segs.append(fl[j])
            if j + 1 < n and fl[j + 1] == ("punct", "::") and j + 2 < n and fl[j + 2][0] in ("ident", "hole"):
                j += 2
                continue
            j += 1
            break
        if len(segs) >= 2:
            bang = j < n and fl[j] == ("punct", "!")
            res.append((start_colon, segs, bang))
            i = j
        else:
            i += 1
    return res


def defined_in_generics(gen):
    """Names the generics-module template defines: (static names, has dynamic Seq/Choice filler)."""
    b = gen.body(GEN + "graph::generate_typed_pair_from_rule")
    names = set()
    dynamic = False
    if b is None:
        return None, False
    for tp in tpl.templates(gen, b):
        fl = list(tpl.flat(tp["tokens"]))
        txt = " ".join(str(x[1]) if x[0] != "hole" else "#" for x in fl)
        if "pub mod generics" in txt:
            for i, t in enumerate(fl):
                if t == ("ident", "type") and i + 1 < len(fl) and fl[i + 1][0] == "ident":
                    names.add(fl[i + 1][1])
            # `pub use predefined_node :: { A , B , .. } ;`  (structurally: `use` .. `::` followed by a brace group of idents)
            def scan(toks):
                for i, t in enumerate(toks):
                    if t[0] == "group":
                        if t[1] == "Brace" and i >= 2 and toks[i - 1] == ("punct", "::") and toks[i - 2][0] == "ident":
                            # is there a `use` before, within the same statement?
                            j = i - 2
                            while j >= 0 and toks[j] not in (("punct", ";"),) and toks[j][0] != "group":
                                if toks[j] == ("ident", "use"):
                                    for x in t[2]:
                                        if x[0] == "ident":
                                            names.add(x[1])
                                    break
                                j -= 1
                        scan(t[2])
            scan(tp["tokens"])
        if re.search(r"pub use pest_typed :: # :: #", txt) or re.search(r"pest_typed :: # ! \(", txt):
            dynamic = True
    return names, dynamic


class Resolver:
    def __init__(self, repo):
        self.items = {}
        self.uses = {}
        self.macros = set()
        for it in repo.item_list:
            if it["kind"] == "Use":
                mod = it["id"].rsplit("::", 1)[0]
                if it.get("vis") == "pub":
                    self.uses.setdefault(mod, []).append((it.get("use_kind"), it.get("use_name"), it.get("use_targets", []), it.get("use_path")))
            else:
                self.items[it["id"]] = it
                if it["kind"].startswith("Macro") and it.get("vis") == "pub":
                    self.macros.add(it["id"].rsplit("::", 1)[-1])

    def resolve(self, segs, depth=0):
        """segs: ['pest_typed', 'a', 'b', 'Name'] -> True / reason string"""
        cur = segs[0]
        for k, s in enumerate(segs[1:], 1):
            nxt = cur + "::" + s
            it = self.items.get(nxt)
            if it is not None:
                if it.get("vis", "pub") != "pub" and it["kind"] != "Variant":
                    return "`%s` is not public" % nxt
                cur = nxt
                continue
            hit = None
            for kind, name, targets, upath in self.uses.get(cur, []):
                if kind == "single" and name == s and targets:
                    hit = targets[0]
                elif kind == "glob" and targets:
                    cand = targets[0] + "::" + s
                    if cand in self.items:
                        hit = cand
            if hit is None:
                return "`%s` has no public item or re-export named `%s`" % (cur, s)
            if not hit.startswith("pest_typed::"):
                return True      # re-export of an external item (core / alloc / pest): trusted to exist
            cur = hit
        return True


def run(rule, gen, repo):
    defined, dynamic = defined_in_generics(gen)
    if defined is None or not defined:
        rule.violate("generics template", "cannot find the `pub mod generics { .. }` template (anchor lost)")
        return
    rule.note("generics module defines %s (+ SeqN/ChoiceN fillers: %s)" % (sorted(defined), dynamic))
    res = Resolver(repo)
    cache = {}
    seen = set()
    for fid in sorted(gen.bodies):
        if "::tests::" in fid:
            continue
        b = gen.body(fid)
        for tp in tpl.templates(gen, b):
            inv._LETS = inv.collect_lets(b["value"])
            toks = expand(gen, tp["tokens"], cache)
            for lead, segs, bang in paths_in(toks):
                names = [s[1] if s[0] == "ident" else None for s in segs]
                # <anything>::generics::Name
                if "generics" in names:
                    gi = names.index("generics")
                    if gi + 1 < len(names):
                        nm = names[gi + 1]
                        where = "%s (%s)" % (fid.rsplit("::", 1)[-1], tp["loc"].rsplit("/", 1)[-1].rsplit(":", 1)[0])
                        if nm is None and "::match_choices::" in fid:
                            key = "generics::<dynamic> in match_choices!"
                            if key not in seen:
                                seen.add(key)
                                rule.inst(key, tp["loc"], "not decided: `generics::ChoiceN` is resolved in the scope of the user's match_choices! call", nontrivial=False)
                        elif nm is None:
                            # dynamic name: must be SeqN / ChoiceN built next to a record_seq / record_choice call
                            txt = repr(b["value"])
                            okd = dynamic and ("record_seq" in txt or "record_choice" in txt)
                            key = "generics::<dynamic> in " + where
                            if key not in seen:
                                seen.add(key)
                                (rule.inst(key, tp["loc"], "ok (arity recorded for the filler)") if okd else
                                 rule.violate(key, "a computed name is emitted under generics:: but its arity is not recorded for the module template", tp["loc"]))
                        elif nm in defined:
                            key = "generics::%s" % nm
                            if key not in seen:
                                seen.add(key)
                                rule.inst(key, tp["loc"], "ok")
                        else:
                            key = "generics::%s" % nm
                            if key not in seen:
                                seen.add(key)
                                rule.violate(key, "template in %s emits `generics::%s`, which the generics module template never defines" % (where, nm), tp["loc"])
                # ::pest_typed::...
                if names and names[0] == "pest_typed" and None not in names:
                    key = "::" + "::".join(names) + ("!" if bang else "")
                    if key in seen:
                        continue
                    seen.add(key)
                    if bang:
                        if names[-1] in res.macros and len(names) == 2:
                            rule.inst(key, tp["loc"], "ok (exported macro)")
                        else:
                            rule.violate(key, "`%s!` is not an exported macro of pest_typed" % names[-1], tp["loc"])
                        continue
                    r = res.resolve(names)
                    if r is True:
                        rule.inst(key, tp["loc"], "ok")
                    else:
                        rule.violate(key, "emitted path does not resolve in pest_typed: %s" % r, tp["loc"])
