import argparse
import importlib
import os
import sys
import traceback

from . import runner, facts

PROPS = {
    "C01": ("c01", "other"),
    "C02": ("c02", "other"),
    "C03": ("c03", "other"),
    "C04": ("c04", "other"),
    "C05": ("c05", "other"),
    "C06": ("c06", "other"),
    "C07": ("c07", "other"),
    "C14": ("c14", "other"),
    "C15": ("c15", "other"),
    "C16": ("c16", "other"),
    "C17": ("c17", "other"),
    "C18": ("c18", "other"),
    "C19": ("c19", "other"),
    "C20": ("c20", "other"),
    "C08": ("c08", "other"),
    "C09": ("c09", "other"),
    "C10": ("c10", "other"),
    "C11": ("c11", "other"),
    "C12": ("c12_c13", "translation_validation"),
    "C13": ("c12_c13", "translation_validation"),
}


def main():
    ap = argparse.ArgumentParser()
    ap.add_argument("prop")
    ap.add_argument("--tier", default=os.environ.get("VERIF_TIER", "quick"))
    a = ap.parse_args()
    if a.tier not in ("quick", "thorough"):
        a.tier = "quick"
    if a.prop not in PROPS:
        print("no check registered for", a.prop)
        return 2
    modname, level = PROPS[a.prop]
    ctx = runner.Ctx(a.prop, a.tier, level)
    try:
        mod = importlib.import_module("ptlint.rules." + modname)
        mod.run(ctx)
    except facts.BuildFailed as e:
        r = ctx.rule("BUILD", "the unit under analysis type-checks")
        first = [l for l in e.out.splitlines() if l.startswith("error")][:3]
        r.violations.append(runner.Violation("BUILD", "BUILD:%s" % e.unit, "facts unit `%s` does not compile on the current tree: %s" % (e.unit, " | ".join(first)), None, e.out[-1500:]))
    except Exception as e:  # fail closed: a crash of the checker is not a pass
        traceback.print_exc()
        r = ctx.rule("INTERNAL", "checker error")
        r.violations.append(runner.Violation("INTERNAL", "INTERNAL:%s" % type(e).__name__, "checker failed: %s" % e, None))
    return ctx.finish()


if __name__ == "__main__":
    sys.exit(main())
