"""Helpers over HIR-lite expression trees."""

CHILD_KEYS = ("f", "recv", "e", "l", "r", "cond", "then", "else", "scrut", "body", "base", "idx", "init", "tail",
              "guard")
LIST_KEYS = ("args", "es")


def children(node):
    """Direct sub-expressions (and nested statement/arm structure) of an expression node."""
    k = node.get("k")
    for key in CHILD_KEYS:
        v = node.get(key)
        if isinstance(v, dict) and "k" in v:
            yield v
    for key in LIST_KEYS:
        v = node.get(key)
        if isinstance(v, list):
            for x in v:
                if isinstance(x, dict) and "k" in x:
                    yield x
    if k == "block":
        for st in node.get("stmts", []):
            if st["k"] == "let":
                if "init" in st:
                    yield st["init"]
                if "els" in st:
                    yield st["els"]
            elif st["k"] == "expr":
                yield st["e"]
    if k == "match":
        for arm in node.get("arms", []):
            if "guard" in arm:
                yield arm["guard"]
            yield arm["body"]
    if k == "struct":
        for f in node.get("fields", []):
            yield f["e"]
    if k == "let_cond":
        pass  # init covered by CHILD_KEYS
    if k == "loop":
        pass  # body covered


def walk(node):
    """Pre-order walk over all expression nodes (closures included)."""
    stack = [node]
    while stack:
        n = stack.pop()
        yield n
        cs = list(children(n))
        stack.extend(reversed(cs))


def callee_path(node):
    c = node.get("callee")
    if c:
        return c.get("path")
    if node.get("k") == "def":
        return node.get("path")
    return None


def calls(node):
    """All call-like nodes with a resolved callee: (node, path)."""
    for n in walk(node):
        if n.get("k") in ("call", "mcall", "binary", "unary", "index", "assign_op") and n.get("callee"):
            yield n, n["callee"]["path"]


def strip_generics(path):
    """`a::B::<T>::f` -> `a::B::f`;  `<X as T>::f` is left alone apart from turbofish parts."""
    out = []
    depth = 0
    i = 0
    while i < len(path):
        c = path[i]
        if path.startswith("::<", i) and depth == 0 and not path.startswith("::<impl ", i):
            # skip balanced <...>
            j = i + 2
            d = 0
            while j < len(path):
                if path[j] == "<":
                    d += 1
                elif path[j] == ">":
                    d -= 1
                    if d == 0:
                        break
                j += 1
            i = j + 1
            continue
        out.append(c)
        i += 1
    return "".join(out)


def pat_binds(p):
    """All binding vars in a pattern."""
    if not isinstance(p, dict):
        return
    if p.get("k") == "bind":
        yield p
        if "sub" in p:
            for x in pat_binds(p["sub"]):
                yield x
    for key in ("ps", "before", "after"):
        for x in p.get(key, []) or []:
            for y in pat_binds(x):
                yield y
    for f in p.get("fields", []) or []:
        for y in pat_binds(f["p"]):
            yield y
    for key in ("p", "mid"):
        if key in p:
            for y in pat_binds(p[key]):
                yield y
