"""PEG operator classes of combinators, read off their (erased, canonical) effect decision trees.

A class is a set of path invariants; runtime type names never enter.
"""

TRANSPARENT = {"snapshot", "restore", "clear_snapshot", "enter_polarity", "exit_polarity", "enter_record",
               "exit_record", "tracker_new", "empty_stack", "out_of_bound", "repeat_too_many_times"}
STACK_OPS = {"snapshot", "restore", "clear_snapshot", "push", "pop", "peek", "stack_index"}
CURSOR_PRIMS = {"match_string", "match_insensitive", "skip_until", "skip", "match_range", "peek_char", "next",
                "at_start", "at_end"}
CHILD_OPS = {"MATCH", "NFMATCH", "FULL"}

RET_FAIL = ("leaf", "RET_FAIL")


def op(n):
    return n[2][0] if n[0] in ("ev", "fork") else None


def strip(t, drop=TRANSPARENT):
    """Remove transparent linear events; merge forks whose branches became equal."""
    tag = t[0]
    if tag == "ev":
        nxt = strip(t[3], drop)
        if t[2][0] in drop:
            return nxt
        return ("ev", t[1], t[2], nxt)
    if tag == "fork":
        ok = strip(t[3], drop)
        fail = strip(t[4], drop)
        return ("fork", t[1], t[2], ok, fail)
    if tag == "loop":
        return ("loop", t[1], t[2], t[3], strip(t[4], drop), strip(t[5], drop))
    if tag == "opq":
        return ("opq", t[1], tuple((lab, strip(s, drop)) for lab, s in t[2]))
    if tag == "unm":
        return ("unm", t[1], strip(t[2], drop))
    return t


def is_ret_ok(n, sym=None):
    if n[0] != "leaf" or n[1] != "RET_OK":
        return False
    if sym is None:
        return True
    return len(n) > 2 and n[2] == sym


def ret_sym(n):
    if n[0] == "leaf" and n[1] in ("RET_OK", "RET") and len(n) > 2:
        return n[2]
    return None


def is_skip_loop(n):
    """Loop(0..K) { NFMATCH(S) on L.c0 ; CONTINUE(out) } -> (K, S, entry cursor, loop id)"""
    if n[0] != "loop":
        return None
    lid, rng, entry, body = n[1], n[2], n[3], n[4]
    if not (isinstance(rng, tuple) and rng[0] == "range" and rng[1] == "Range"):
        return None
    d = dict(rng[2])
    if d.get("start") != ("lit", "0"):
        return None
    if len(entry) != 1:
        return None
    if body[0] != "ev" or body[2][0] != "NFMATCH":
        return None
    if body[2][2] != ("loop", lid, 0):
        return None
    nxt = body[3]
    if not (nxt[0] == "leaf" and nxt[1] == "CONTINUE" and nxt[2] == lid and nxt[3] == (("cur", ("out", body[1])),)):
        return None
    return {"K": d.get("end"), "S": body[2][1][0], "entry": entry[0], "lid": lid, "event": body[1]}


def walk_seq(t):
    """Sequence skeleton: children matched in order, failure propagated.
    Returns dict(children=[(X, on, eid)], skips=[index -> skip info before child index], final=sym) or None."""
    children = []
    skips = {}
    extra = []
    n = t
    while True:
        if n[0] == "fork" and n[2][0] == "MATCH":
            if n[4] != RET_FAIL:
                return None
            children.append((n[2][1][0], n[2][2], n[1]))
            n = n[3]
            continue
        sk = is_skip_loop(n)
        if sk is not None:
            if len(children) in skips:
                return None
            skips[len(children)] = sk
            n = n[5]
            continue
        if n[0] == "ev" and n[2][0] == "push":
            extra.append(("push", n[2][1], len(children)))
            n = n[3]
            continue
        if n[0] == "leaf" and n[1] == "RET_OK":
            return {"children": children, "skips": skips, "final": ret_sym(n), "extra": extra}
        return None


def walk_choice(t):
    """Ordered choice skeleton. Returns list of (X, on, eid) or None."""
    alts = []
    n = t
    while True:
        if n[0] == "fork" and n[2][0] == "MATCH":
            if not is_ret_ok(n[3], ("out", n[1])):
                return None
            alts.append((n[2][1][0], n[2][2], n[1]))
            n = n[4]
            continue
        if n == RET_FAIL and alts:
            return alts
        return None


def loop_range(rng):
    """('from', lo) | ('range', lo, hi) | ('iter', v) | ('loop',)"""
    if isinstance(rng, tuple) and rng and rng[0] == "range":
        d = dict(rng[2])
        if rng[1] == "RangeFrom":
            return ("from", d.get("start"))
        if rng[1] == "Range":
            return ("range", d.get("start"), d.get("end"))
        if rng[1] == "RangeInclusive":
            return ("range_incl", d.get("start"), d.get("end"))
        return ("range?", rng[1])
    if isinstance(rng, tuple) and rng and rng[0] == "iter":
        return ("iter", rng[1])
    return ("loop",)


def walk_rep(t):
    """Repetition skeleton:
       Loop L (range) carrying c { [skip loop under not-ZERO(i)] ; MATCH(T) on u ; ok -> CONTINUE(out) ;
                                   fail -> [LT(i, MIN) ? RET_FAIL :] BREAK(c) } ; after: RET_OK/RET(exit c)
    Returns dict or None."""
    if t[0] != "loop":
        return None
    lid, rng, entry, body, after = t[1], t[2], t[3], t[4], t[5]
    if len(entry) != 1:
        return None
    info = {"range": loop_range(rng), "entry": entry[0], "lid": lid, "skip": None, "min": None}
    brk = ("leaf", "BREAK", lid, (("cur", ("loop", lid, 0)),))

    def unit(n, cur_sym):
        """MATCH(T) on cur_sym ; ok -> CONTINUE(out) ; fail -> [LT(i, MIN) ? RET_FAIL :] BREAK(c)"""
        if not (n[0] == "fork" and n[2][0] == "MATCH") or n[2][2] != cur_sym:
            return None
        u = {"child": n[2][1][0], "child_event": n[1], "child_tracker": n[2][1][-1] if len(n[2][1]) > 1 else None}
        ok, fail = n[3], n[4]
        if not (ok[0] == "leaf" and ok[1] == "CONTINUE" and ok[2] == lid and ok[3] == (("cur", ("out", n[1])),)):
            return None
        if fail == brk:
            u["min"] = None
        elif fail[0] == "opq" and fail[1][0] == "lt" and fail[1][1] == ("idx", lid):
            arms = dict(fail[2])
            if arms.get("true") != RET_FAIL or arms.get("false") != brk:
                return None
            u["min"] = fail[1][2]
        else:
            return None
        return u
    n = body
    cur_sym = ("loop", lid, 0)
    if n[0] == "opq" and n[1] == ("zero", ("idx", lid)):
        # canonical (unswitched) form of the guarded skip: first iteration without skip, later ones after the skip loop
        arms = dict(n[2])
        tr, fa = arms.get("true"), arms.get("false")
        if tr is None or fa is None:
            return None
        sk = is_skip_loop(fa)
        if sk is None or sk["entry"] != ("cur", cur_sym):
            return None
        u1 = unit(tr, cur_sym)
        u2 = unit(fa[5], ("exit", sk["lid"], 0))
        if u1 is None or u2 is None:
            return None
        if {k: v for k, v in u1.items() if k != "child_event"} != {k: v for k, v in u2.items() if k != "child_event"}:
            return None
        info["skip"] = {"K": sk["K"], "S": sk["S"], "lid": sk["lid"], "event": sk["event"]}
        info.update(u2)
        info["child_event_first"] = u1["child_event"]
    else:
        u = unit(n, cur_sym)
        if u is None:
            return None
        info.update(u)
    if not (after[0] == "leaf" and after[1] in ("RET_OK", "RET") and ret_sym(after) == ("exit", lid, 0)):
        return None
    info["never_fails"] = (after[1] == "RET")
    return info


def walk_prim(t):
    """Leaf primitive: fork prim on IN; ok -> RET_OK(out|IN); fail -> RET_FAIL."""
    if t[0] == "fork" and t[2][0] in CURSOR_PRIMS and t[2][2] == "IN" and t[4] == RET_FAIL:
        if t[2][0] in ("at_start", "at_end"):
            if is_ret_ok(t[3], "IN"):
                return {"prim": t[2][0], "args": t[2][1], "advance": False}
            return None
        if t[2][0] == "peek_char":
            # ok -> opq(pred(char)) true -> RET_OK(out) false -> RET_FAIL
            ok = t[3]
            if ok[0] == "opq" and ok[1][0] == "val":
                arms = dict(ok[2])
                if is_ret_ok(arms.get("true", ()), ("out", t[1])) and arms.get("false") == RET_FAIL:
                    return {"prim": "match_char_by", "args": (ok[1][1],), "advance": True}
            return None
        if is_ret_ok(t[3], ("out", t[1])):
            return {"prim": t[2][0], "args": t[2][1], "advance": True}
    return None


def walk_prim_choice(t):
    """Ordered choice of cursor primitives on IN (NEWLINE): [(prim, args)]"""
    out = []
    n = t
    while n[0] == "fork" and n[2][0] in CURSOR_PRIMS and n[2][2] == "IN" and is_ret_ok(n[3], ("out", n[1])):
        out.append((n[2][0], n[2][1]))
        n = n[4]
    if n == RET_FAIL and len(out) >= 2:
        return out
    return None


def classify(tree):
    """Returns dict(cls=..., ...) for the erased canonical tree of a parse/check function."""
    s = strip(tree)
    # leaves
    p = walk_prim(s)
    if p:
        return dict(cls="PRIM", **p)
    if s[0] == "leaf":
        if s[1] == "RET_FAIL":
            return dict(cls="FAIL")
        if s[1] in ("RET_OK", "RET") and ret_sym(s) == "IN":
            return dict(cls="EMPTY")
    if s[0] == "ev" and s[2][0] == "skip_until" and s[2][2] == "IN" and is_ret_ok(s[3], ("out", s[1])):
        return dict(cls="SKIP_UNTIL", args=s[2][1])
    # single child forms
    if s[0] == "fork" and s[2][0] == "MATCH" and s[2][2] == "IN":
        x = s[2][1][0]
        ok, fail = s[3], s[4]
        if is_ret_ok(ok, "IN") and fail == RET_FAIL:
            return dict(cls="POS", child=x)
        if ok == RET_FAIL and is_ret_ok(fail, "IN"):
            return dict(cls="NEG", child=x)
        if is_ret_ok(ok, ("out", s[1])) and is_ret_ok(fail, "IN"):
            return dict(cls="OPT", child=x)
        if ok[0] == "ev" and ok[2][0] == "push" and fail == RET_FAIL and is_ret_ok(ok[3], ("out", s[1])):
            return dict(cls="PUSH", child=x, pushed=ok[2][1])
    pc = walk_prim_choice(s)
    if pc:
        return dict(cls="PRIMCHOICE", prims=pc)
    ch = walk_choice(s)
    if ch and len(ch) >= 2 and all(on == "IN" for _, on, _ in ch):
        return dict(cls="CHOICE", children=[x for x, _, _ in ch], n=len(ch))
    sq = walk_seq(s)
    if sq and sq["children"] and not sq["extra"]:
        # cursor chaining: child 0 on IN, child k on out(k-1) or on the exit of the skip loop fed by out(k-1)
        okc = True
        prev = "IN"
        for k, (x, on, eid) in enumerate(sq["children"]):
            if k in sq["skips"]:
                sk = sq["skips"][k]
                if sk["entry"] != ("cur", prev) or on != ("exit", sk["lid"], 0):
                    okc = False
            elif on != prev:
                okc = False
            prev = ("out", eid)
        if okc and sq["final"] == prev:
            if len(sq["children"]) == 1:
                return dict(cls="WRAP", child=sq["children"][0][0], skips=sq["skips"])
            return dict(cls="SEQ", children=[x for x, _, _ in sq["children"]], n=len(sq["children"]), skips=sq["skips"])
    rp = walk_rep(s)
    if rp:
        return dict(cls="REP", **rp)
    # fixed-count loop of one child: Loop(0..N){ MATCH(T) on c ; ok CONTINUE(out) ; fail RET_FAIL } RET_OK(exit)
    if s[0] == "loop" and len(s[3]) == 1:
        lid, body, after = s[1], s[4], s[5]
        r = loop_range(s[2])
        if (r[0] == "range" and r[1] == ("lit", "0") and body[0] == "fork" and body[2][0] == "MATCH"
                and body[2][2] == ("loop", lid, 0) and body[4] == RET_FAIL
                and body[3] == ("leaf", "CONTINUE", lid, (("cur", ("out", body[1])),))
                and is_ret_ok(after, ("exit", lid, 0)) and s[3][0] == ("cur", "IN")):
            return dict(cls="ARRAY", child=body[2][1][0], n=r[2])
    return dict(cls="OTHER")


def events(t):
    """All event nodes (ev/fork) in a canonical tree."""
    stack = [t]
    while stack:
        n = stack.pop()
        tag = n[0]
        if tag == "ev":
            yield n
            stack.append(n[3])
        elif tag == "fork":
            yield n
            stack.append(n[4])
            stack.append(n[3])
        elif tag == "loop":
            stack.append(n[5])
            stack.append(n[4])
        elif tag == "opq":
            for _, s in n[2]:
                stack.append(s)
        elif tag == "unm":
            stack.append(n[2])


def all_leaves(t):
    stack = [t]
    while stack:
        n = stack.pop()
        tag = n[0]
        if tag == "leaf":
            yield n
        elif tag == "ev":
            stack.append(n[3])
        elif tag == "fork":
            stack.extend([n[4], n[3]])
        elif tag == "loop":
            stack.extend([n[5], n[4]])
        elif tag == "opq":
            stack.extend(s for _, s in n[2])
        elif tag == "unm":
            stack.append(n[2])


def subterms(v):
    """All nested tuples of a value term (pre-order)."""
    stack = [v]
    while stack:
        n = stack.pop()
        if isinstance(n, tuple):
            yield n
            stack.extend(x for x in n if isinstance(x, tuple))
