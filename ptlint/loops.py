"""LOOPS — every loop of the runtime terminates for a structural reason.

* `for` over a finite iterator (a bounded range, a slice / Vec / BTreeMap iterator, Chars, Lines and adapters of those):
  terminates by construction.
* `for` over an unbounded range (`0..`): the repetition loops; reported as instances that refer to R19-BOUNDS (they go on
  only after a matched iteration; termination then rests on the element consuming input, which pest's validation of the
  grammar guarantees for accepted grammars).
* `while` / `loop`: a necessary condition for termination is checked on every path from the loop head back to the loop
  head (falling off the end of the body or `continue`): the path must change something the exit conditions read — an
  assignment to a local the conditions mention, or a `&mut` use of such a local by a call that is not a known
  non-advancing one (`peek`).  A path that changes nothing leaves the condition as it was: the loop never ends once it
  takes that path twice in a row (seed C11-3: a `continue` that skips the increment).
"""
import re

from .hir import walk, strip_generics, children
from . import prims

FINITE = (
    "core::ops::range::Range<", "core::ops::range::RangeInclusive<", "core::slice::iter::Iter<", "core::slice::iter::IterMut<",
    "core::str::iter::Chars<", "core::str::iter::CharIndices<", "core::str::iter::Bytes<", "alloc::vec::Vec<", "alloc::vec::into_iter::IntoIter<",
    "alloc::collections::btree::map::BTreeMap<", "alloc::collections::btree::set::BTreeSet<", "pest_typed::span::Lines<", "pest_typed::span::LinesSpan<",
    "pest::span::Lines<", "[", "&[", "core::option::Option<",
)
ADAPTERS = ("core::iter::adapters::peekable::Peekable<", "core::iter::adapters::enumerate::Enumerate<", "core::iter::adapters::rev::Rev<",
            "core::iter::adapters::skip::Skip<", "core::iter::adapters::take::Take<", "core::iter::adapters::map::Map<",
            "core::iter::adapters::zip::Zip<", "core::iter::adapters::filter::Filter<", "core::iter::adapters::cloned::Cloned<",
            "core::iter::adapters::copied::Copied<")
UNBOUNDED = ("core::ops::range::RangeFrom<",)
# reviewed opaque iterators: (function suffix, type prefix) -> reason
OPAQUE_OK = {
    ("pest_typed::predefined_node::peek_spans", "impl Iterator<"): "iterator parameter; every caller passes a slice iterator of the stack (finite)",
}
NON_ADVANCING = ("peek", "peek_mut", "as_mut", "last_mut", "first_mut", "get_mut", "borrow_mut", "by_ref", "len", "is_empty")


def iter_kind(ty):
    t = ty.replace("&mut ", "").lstrip("&")
    while t.startswith(ADAPTERS):
        t = t[t.index("<") + 1:]
    if t.startswith(UNBOUNDED):
        return "unbounded"
    if t.startswith(FINITE):
        return "finite"
    return "unknown"


def locals_in(e):
    return {n["var"] for n in walk(e) if n["k"] == "local"}


def root_local(e):
    e = prims._peel(e)
    while e["k"] in ("field", "unary", "addr_of", "index"):
        e = prims._peel(e["base"] if e["k"] in ("field", "index") else e["e"])
    return e["var"] if e["k"] == "local" else None


def mut_use(c, e):
    """Is this argument / receiver expression handed over mutably (auto-borrow mut, &mut expr, or a `&mut T` local)?"""
    kinds = [a.get("k") for a in e.get("adj") or []]
    if "borrow_mut" in kinds:
        return True
    if "borrow" in kinds:
        return False      # `&mut T` local reborrowed shared (self.end() with self: &mut Self)
    if e["k"] == "addr_of" and e.get("mut"):
        return True
    if e["k"] == "local" and e.get("ty") is not None and c.tys(e["ty"]).startswith("&mut "):
        return True
    return False


class BackEdges(prims.Paths):
    """Paths through a loop body; a 'write' is anything that changes a local the exit conditions read."""

    def __init__(self, crate, loop_body, read):
        super().__init__(crate, {"value": loop_body, "params": []}, set())
        self.read = read

    def write_of(self, n):
        k = n["k"]
        if k in ("assign", "assign_op"):
            r = root_local(n["l"])
            if r in self.read:
                return ("assign", n)
        if k in ("mcall", "call") and n.get("callee"):
            nm = strip_generics(n["callee"]["path"]).rsplit("::", 1)[-1]
            args = ([n["recv"]] if k == "mcall" else []) + n.get("args", [])
            for a in args:
                if mut_use(self.c, a) and root_local(a) in self.read and nm not in NON_ADVANCING:
                    return ("mutcall:" + nm, n)
        return None

    # a draw that yields nothing changes nothing: `if let Some(x) = q.pop_front() {..}` — on the None side the call is no progress
    DRAWS = ("pop_front", "pop_back", "pop", "next", "next_back")

    def empty_draw(self, init):
        init = prims._peel(init)
        if init["k"] in ("call", "mcall") and init.get("callee") and \
                strip_generics(init["callee"]["path"]).rsplit("::", 1)[-1] in self.DRAWS:
            return init
        return None

    def run_cond(self, cond, writes, facts):
        if cond["k"] == "let_cond":
            d = self.empty_draw(cond["init"])
            tag = self.pat_tag(cond["pat"])
            if d is not None and tag and tag[0] == "Some" and tag[1]:
                for oc, v, w, f in super().run_cond(cond, writes, facts):
                    if oc == ("cond", False):
                        w = tuple(x for x in w if x[1] is not d)
                    yield oc, v, w, f
                return
        yield from super().run_cond(cond, writes, facts)

    def run(self, e, writes, facts):
        if e["k"] == "match" and e.get("src") == "normal" and self.empty_draw(e["scrut"]) is not None:
            d = self.empty_draw(e["scrut"])
            for oc, v, w, f in self.run(e["scrut"], writes, facts):
                if oc != "norm":
                    yield oc, v, w, f
                    continue
                for arm in e["arms"]:
                    tag = self.pat_tag(arm["pat"])
                    w2 = tuple(x for x in w if x[1] is not d) if tag and tag[0] == "None" else w
                    yield from self.run(arm["body"], w2, f)
            return
        if e["k"] in ("call", "mcall") and e.get("callee") and \
                strip_generics(e["callee"]["path"]).startswith(("core::panicking::", "std::rt::begin_panic", "core::hint::unreachable_unchecked")):
            yield "ret", None, writes, facts
            return
        if e["k"] == "loop":
            # an inner loop: its own termination is a separate instance; what it changes still counts
            found = writes
            for n in walk(e["body"]):
                w = self.write_of(n)
                if w:
                    found = found + (w,)
            yield "norm", None, found, facts
            return
        yield from super().run(e, writes, facts)


def exit_conditions(loop):
    """Conditions of `if`s / scrutinees of `match`es in this loop's own body one of whose branches leaves the loop."""
    lid = loop.get("id")
    conds = []

    def leaves(e):
        for n in walk(e):
            if n["k"] == "ret":
                return True
            if n["k"] == "break" and (n.get("target") in (None, lid)):
                return True
        return False

    def visit(e, top):
        if e["k"] == "loop" and not top:
            return
        if e["k"] == "if":
            if leaves(e["then"]) or ("else" in e and leaves(e["else"])):
                conds.append(e["cond"])
        if e["k"] == "match" and e.get("src") == "try":
            # `?`: an error exit is not what ends the loop; look only inside the operand
            visit(e["scrut"], False)
            return
        if e["k"] == "match" and e.get("src") != "for":
            if any(leaves(a["body"]) for a in e["arms"]):
                conds.append(e["scrut"])
        for ch in children(e):
            visit(ch, False)
    visit(loop, True)
    return conds


def analyse(c, fid, body):
    """Yield dict(kind, key, loc, detail) per loop in the body."""
    fors = {}
    for n in walk(body["value"]):
        if n["k"] == "match" and n.get("src") == "for" and n["scrut"].get("callee") and \
                strip_generics(n["scrut"]["callee"]["path"]).endswith("IntoIterator::into_iter"):
            for m in walk(n["arms"][0]["body"]):
                if m["k"] == "loop":
                    fors[id(m)] = n["scrut"]["args"][0]
                    break
    ordinal = 0
    for n in walk(body["value"]):
        if n["k"] != "loop":
            continue
        ordinal += 1
        loc = c.loc(n.get("sp"))
        key = "%s #%d" % (fid, ordinal)
        if id(n) in fors:
            it = fors[id(n)]
            ty = c.tys(it.get("ty")) if it.get("ty") is not None else "?"
            kind = iter_kind(ty)
            if kind == "unknown":
                ok = next((r for (f, t), r in OPAQUE_OK.items() if strip_generics(fid).endswith(f.split("::", 1)[1]) or strip_generics(fid) == f
                           if ty.replace("&mut ", "").startswith(t)), None)
                if ok:
                    yield dict(kind="for-finite", key=key, loc=loc, detail={"iterator": ty[:100], "reviewed": ok})
                else:
                    yield dict(kind="for-unknown", key=key, loc=loc, detail={"iterator": ty[:160]})
            else:
                yield dict(kind="for-" + kind, key=key, loc=loc, detail={"iterator": ty[:100]})
            continue
        conds = exit_conditions(n)
        read = set()
        for cd in conds:
            read |= locals_in(cd)
        if not conds:
            yield dict(kind="while-noexit", key=key, loc=loc, detail={})
            continue
        try:
            be = BackEdges(c, n["body"], read)
            paths = [(oc, w) for oc, v, w, f in be.run(n["body"], (), {})]
        except RuntimeError as ex:
            yield dict(kind="while-unknown", key=key, loc=loc, detail={"why": str(ex)})
            continue
        back = [(oc, w) for oc, w in paths if oc in ("norm", "continue")]
        stuck = [w for oc, w in back if not w]
        names = sorted({m.get("name", "?") for cd in conds for m in walk(cd) if m["k"] == "local"})
        if stuck:
            yield dict(kind="while-stuck", key=key, loc=loc, detail={"conditions_read": names, "back_edge_paths": len(back), "stuck_paths": len(stuck)})
        else:
            yield dict(kind="while-ok", key=key, loc=loc, detail={"conditions_read": names, "back_edge_paths": len(back),
                                                                   "progress": sorted({x[0] for _, w in back for x in w})})
