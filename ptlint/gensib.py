"""R20-GENSIB: the two `Generate` impls (raw AST / optimized AST) agree on shared operators."""
import re

from . import snf
from .hir import walk

OPT = "pest_typed_generator::graph::optimized_rule::<impl pest_typed_generator::graph::traits::Generate for pest_meta::optimizer::OptimizedRule>::"
RAW = "pest_typed_generator::graph::rule::<impl pest_typed_generator::graph::traits::Generate for pest_meta::ast::Rule>::"


def hook(p):
    p = p.replace("pest_meta::optimizer::OptimizedExpr", "EXPR").replace("pest_meta::ast::Expr", "EXPR")
    p = p.replace("pest_meta::optimizer::OptimizedRule", "RULE").replace("pest_meta::ast::Rule", "RULE")
    p = p.replace("graph::optimized_rule::", "graph::GEN::").replace("graph::rule::", "graph::GEN::")
    return p


def variant(p):
    k = p["k"]
    if k in ("tstruct", "struct"):
        return p["res"].get("path", "?").rsplit("::", 1)[-1]
    if k == "expr" and "res" in p:
        return p["res"].get("path", "?").rsplit("::", 1)[-1]
    if k in ("ref", "deref"):
        return variant(p["p"])
    if k == "or":
        return variant(p["ps"][0])
    return None


def main_match(body):
    """The `match expr { .. }` over the expression enum: the match with most arms whose patterns are enum variants."""
    best = None
    for n in walk(body["value"]):
        if n["k"] == "match" and n.get("src") == "normal":
            vs = [variant(a["pat"]) for a in n["arms"]]
            if all(vs) and (best is None or len(n["arms"]) > len(best["arms"])):
                best = n
    return best


def arms_by_variant(match):
    out = {}
    for a in match["arms"]:
        pats = a["pat"]["ps"] if a["pat"]["k"] == "or" else [a["pat"]]
        for p in pats:
            out[variant(p)] = a
    return out


def compare_arm(crate, fn_a, arm_a, fn_b, arm_b):
    na = snf.Normalizer(crate, path_hook=hook)
    nb = snf.Normalizer(crate, path_hook=hook)
    # bind function parameters first so that they get the same alpha indices on both sides
    for n, fn in ((na, fn_a), (nb, fn_b)):
        n.vars = {}
        for p in fn["params"]:
            n.pat(p)
        # locals defined before the match (e.g. `generics`, `skip`) : walk lets in order
        for st in fn["value"].get("stmts", []):
            if st["k"] == "let":
                n.pat(st["pat"])
    a = snf.N(("arm",), [na.pat(arm_a["pat"]), na.expr(arm_a["body"])])
    b = snf.N(("arm",), [nb.pat(arm_b["pat"]), nb.expr(arm_b["body"])])
    if a == b:
        return True, a.size(), None
    return False, a.size(), snf.first_diff(a, b)


def run(rule, gen):
    """rule: runner.Rule; gen: Crate of pest_typed_generator"""
    n = 0
    for meth in ("generate_graph_node",):
        fa, fb = gen.body(OPT + meth), gen.body(RAW + meth)
        if fa is None or fb is None:
            rule.violate(meth, "Generate::%s missing on one side (anchor lost)" % meth)
            continue
        ma, mb = main_match(fa), main_match(fb)
        if ma is None or mb is None:
            rule.violate(meth, "no match over the expression enum found")
            continue
        aa, ab = arms_by_variant(ma), arms_by_variant(mb)
        shared = sorted(set(aa) & set(ab))
        for v in shared:
            eq, size, diff = compare_arm(gen, fa, aa[v], fb, ab[v])
            key = "%s: arm %s" % (meth, v)
            if eq:
                n += 1
                rule.inst(key, gen.loc(aa[v]["body"].get("sp")), "ok", {"nodes_compared": size})
            else:
                x, y = diff
                rule.violate(key, "the raw-AST generator and the optimized-AST generator translate `%s` differently" % v, y.loc,
                             "optimized (%s): %s\nraw       (%s): %s" % (x.loc, x.show(maxdepth=4), y.loc, y.show(maxdepth=4)))
        rule.note("%s: %d shared operators compared; only in optimized: %s; only in raw: %s" % (
            meth, len(shared), sorted(set(aa) - set(ab)), sorted(set(ab) - set(aa))))
    # generate_graph: whole bodies
    fa, fb = gen.body(OPT + "generate_graph"), gen.body(RAW + "generate_graph")
    if fa and fb:
        eq, size, diff = snf.compare(gen, fa, gen, fb, hook_a=hook, hook_b=hook)
        if eq:
            rule.inst("generate_graph", gen.loc(fa["value"].get("sp")), "ok", {"nodes_compared": size})
        else:
            x, y = diff
            rule.violate("generate_graph", "rule kind -> (atomicity, emission) / boxing logic differs between the two generators", y.loc,
                         "optimized (%s): %s\nraw (%s): %s" % (x.loc, x.show(), y.loc, y.show()))
    # collect_used_rule: table variant -> action (normal form of the arm body), or-patterns expanded
    fa, fb = gen.body(OPT + "collect_used_rule"), gen.body(RAW + "collect_used_rule")
    if fa and fb:
        ma, mb = main_match(fa), main_match(fb)
        if ma and mb:
            aa, ab = arms_by_variant(ma), arms_by_variant(mb)
            for v in sorted(set(aa) & set(ab)):
                na = snf.Normalizer(gen, path_hook=hook)
                nb = snf.Normalizer(gen, path_hook=hook)
                # actions only use the variant's bound sub-expressions: compare body shapes with fresh alpha-renaming
                pa = [p for p in (aa[v]["pat"]["ps"] if aa[v]["pat"]["k"] == "or" else [aa[v]["pat"]]) if variant(p) == v][0]
                pb = [p for p in (ab[v]["pat"]["ps"] if ab[v]["pat"]["k"] == "or" else [ab[v]["pat"]]) if variant(p) == v][0]
                for n_, fn in ((na, fa), (nb, fb)):
                    n_.vars = {}
                    for p in fn["params"]:
                        n_.pat(p)
                    for st in fn["value"].get("stmts", []):
                        if st["k"] == "let":
                            n_.pat(st["pat"])
                a = snf.N(("arm",), [na.pat(pa), na.expr(aa[v]["body"])])
                b = snf.N(("arm",), [nb.pat(pb), nb.expr(ab[v]["body"])])
                key = "collect_used_rule: arm %s" % v
                if a == b:
                    rule.inst(key, gen.loc(aa[v]["body"].get("sp")))
                else:
                    x, y = snf.first_diff(a, b)
                    rule.violate(key, "used-rule collection treats `%s` differently in the two generators" % v, y.loc,
                                 "optimized: %s\nraw: %s" % (x.show(), y.show()))
            # what surrounds the match (the implicit COMMENT / WHITESPACE use of normal rules, the work-list loop): every top-level
            # statement that does not contain the match must be the same program on both sides (mutation scan survivor:
            # `rule.ty() == RuleType::Normal` -> `!=` in one generator only)
            def prologue(fn, m):
                body = fn["value"]
                stmts = [st for st in body.get("stmts", []) if not any(x is m for x in walk(st.get("init") or st.get("e") or {"k": "none"}))]
                norm = snf.Normalizer(gen, path_hook=hook)
                norm.vars = {}
                for p_ in fn["params"]:
                    norm.pat(p_)
                out = []
                for st in stmts:
                    if st["k"] == "let":
                        init = norm.expr(st["init"]) if "init" in st else snf.N(("noinit",), [])
                        out.append(snf.N(("let",), [norm.pat(st["pat"]), init]))
                    elif st["k"] == "expr":
                        out.append(snf.N(("stmt",), [norm.expr(st["e"])]))
                return snf.N(("prologue",), out)
            pa, pb = prologue(fa, ma), prologue(fb, mb)
            if pa == pb:
                rule.inst("collect_used_rule: statements around the match", gen.loc(fa["value"].get("sp")), "ok", {"nodes_compared": pa.size()})
            else:
                x, y = snf.first_diff(pa, pb)
                rule.violate("collect_used_rule: statements around the match", "the two generators differ in what they do before / around the "
                             "match over the expression (implicit COMMENT / WHITESPACE use, work list)", y.loc,
                             "optimized: %s\nraw: %s" % (x.show(), y.show()))
    return n
