"""TT — type trees of derive output on fixture crates (types rustc assigned after macro expansion; nothing is run)."""
import json
import os
import re

from . import nodes, classes, edt
from .hir import walk, strip_generics

PN = "pest_typed::predefined_node::"
SKIPPED = PN + "Skipped"
TN_CHECK = "pest_typed::typed_node::TypedNode::try_check_partial_with"
TN_PARSE = "pest_typed::typed_node::TypedNode::try_parse_partial_with"


def load_expect(name):
    p = os.path.join(os.path.dirname(os.path.dirname(os.path.abspath(__file__))), "fixtures", name, "expect.json")
    with open(p) as fh:
        return json.load(fh)


class Fixture:
    """One derive module of a fixture crate: its rule structs and their inner types."""

    def __init__(self, crate, module):
        self.c = crate
        self.module = module                      # e.g. fx_ops::opt_on
        self.prefix = module + "::rules_impl::rules::"
        self.rules = {}
        for it in crate.item_list:
            if it["kind"] == "Struct" and it["id"].startswith(self.prefix):
                self.rules[it["id"][len(self.prefix):]] = it

    def is_rule_path(self, path):
        return "::rules_impl::rules::" in path and path.startswith(self.c.name + "::")

    def inner_type(self, rule):
        """Type (dict) matched by the rule struct: generic argument of the TypedNode call inside its own check method."""
        sid = self.prefix + rule
        for it in self.c.impls():
            if it.get("trait") == nodes.TN_TRAIT and self.c.types[it["self_ty"]].get("path") == sid:
                for m in it["items"]:
                    if m["name"] == "try_check_partial_with":
                        b = self.c.body(m["id"])
                        for n in walk(b["value"]):
                            cal = n.get("callee")
                            if cal and strip_generics(cal["path"]) == TN_CHECK and cal.get("args"):
                                a0 = cal["args"][0]
                                if "t" in a0:
                                    return self.c.types[a0["t"]]
        return None

    def impl_item(self, trait, rule):
        sid = self.prefix + rule
        for it in self.c.impls():
            if it.get("trait") == trait and self.c.types[it["self_ty"]].get("path") == sid:
                return it
        return None

    def wrapper_string(self, tdict):
        """CONTENT of a generated constant wrapper type (StringWrapper / StringArrayWrapper impl's const body)."""
        path = tdict.get("path")
        for tr in ("pest_typed::wrapper::StringWrapper", "pest_typed::wrapper::StringArrayWrapper"):
            bid = "<%s as %s>::CONTENT" % (path, tr)
            b = self.c.body(bid)
            if b is not None:
                lits = [m["v"]["str"] for m in walk(b["value"]) if m["k"] == "lit" and m["v"] and "str" in m["v"]]
                return lits[0] if tr.endswith("StringWrapper") and lits else lits
        return None


def targs(crate, t):
    """[( 't', dict) | ('c', str)] generic arguments of an adt type, lifetimes dropped"""
    return nodes.type_adt(crate, t)[1]


class ClassTrees:
    """Maps runtime ADT paths to PEG classes (via their effect trees) and builds class trees of fixture types."""

    def __init__(self, world):
        self.world = world
        self.cls = {}
        for key, pid, cid, loc, im in world.twin_pairs():
            if im.trait != nodes.TN_TRAIT or im.crate.name != "pest_typed":
                continue
            path = im.self_adt()[0]
            if "::unicode::" in path:
                self.cls.setdefault(path, {"cls": "PRIM", "prim": "match_char_by", "unicode": path.rsplit("::", 1)[-1]})
                continue
            c = classes.classify(world.tree(cid))
            c["generics"] = [g for g in (world.fs["pest_typed"].item(path) or {}).get("generics", []) if g["kind"] != "lifetime"]
            self.cls[path] = c

    def tree(self, fx, t, skips=None):
        """Class tree of a type; `skips` collects (K, S-type-string) of every Skipped<_, S, K> met outside other rules."""
        c = fx.c
        k = t["k"]
        if k == "array":
            return ["ARRAY", t["len"], self.tree(fx, c.types[t["elem"]], skips)]
        if k == "tuple":
            return ["SEQ"] + [self.tree(fx, c.types[x], skips) for x in t["elems"]]
        if k != "adt":
            return ["?", t["s"]]
        path = t["path"]
        args = targs(c, t)
        if fx.is_rule_path(path):
            consts = [a for kind, a in args if kind == "c"]
            if skips is not None:
                skips.append(("ref", path.rsplit("::", 1)[-1], consts[0] if consts else None))
            return ["RULE", path.rsplit("::", 1)[-1]]
        if path == SKIPPED:
            if skips is not None:
                skips.append(("skip", args[2][1] if len(args) > 2 else None, args[1][1]["s"] if len(args) > 1 else None))
            return self.tree(fx, args[0][1], skips)
        if path == "alloc::boxed::Box":
            return self.tree(fx, args[0][1], skips)
        if path == "core::option::Option":
            return ["OPT", self.tree(fx, args[0][1], skips)]
        info = self.cls.get(path)
        if info is None:
            return ["?", path]
        cl = info["cls"]
        targ = [a for kind, a in args if kind == "t"]
        carg = [a for kind, a in args if kind == "c"]
        if cl in ("SEQ", "CHOICE"):
            return [cl] + [self.tree(fx, a, skips) for a in targ]
        if cl in ("POS", "NEG", "PUSH"):
            return [cl, self.tree(fx, targ[0], skips)]
        if cl == "REP":
            gen = [g["name"] for g in info["generics"] if g["kind"] == "const"]
            cmap = dict(zip(gen, carg))
            lo = info.get("min")
            lo = cmap.get(lo[1], lo[1]) if lo else "0"
            rng = info["range"]
            hi = "inf" if rng[0] == "from" else cmap.get(rng[2][1], rng[2][1])
            return ["REP", lo, hi, self.tree(fx, targ[0], skips)]
        if cl == "PRIM":
            if "unicode" in info:
                return ["BUILTIN", info["unicode"]]
            prim = info["prim"]
            if prim in ("match_string", "match_insensitive"):
                return ["PRIM", prim, fx.wrapper_string(targ[0]) if targ else None]
            if prim == "match_range":
                return ["PRIM", prim] + carg
            name = path.rsplit("::", 1)[-1]
            return ["BUILTIN", name]
        if cl == "SKIP_UNTIL":
            return ["SKIP_UNTIL", fx.wrapper_string(targ[0]) if targ else None]
        name = path.rsplit("::", 1)[-1]
        if name.startswith("PeekSlice"):
            return ["SLICE"] + carg + ([None] if name == "PeekSlice1" else [])
        return ["BUILTIN", name]
