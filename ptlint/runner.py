"""Rule runner: instances, floors, violations, known findings, evidence."""
import json
import os
import re
import sys
import time

VERIF = os.path.dirname(os.path.dirname(os.path.abspath(__file__)))


class Violation:
    def __init__(self, rule, key, what, loc, detail=None):
        self.rule = rule
        self.key = key          # stable, no line numbers
        self.what = what
        self.loc = loc
        self.detail = detail


class Rule:
    def __init__(self, ctx, rid, descr):
        self.ctx = ctx
        self.id = rid
        self.descr = descr
        self.instances = 0
        self.distinct = set()
        self.samples = []
        self.violations = []
        self.floor = None
        self.notes = []
        self.undecided = []

    def inst(self, construct, loc=None, verdict="ok", detail=None, nontrivial=True):
        self.instances += 1
        if nontrivial:
            self.distinct.add(construct)
        if len(self.samples) < 4 or (verdict != "ok" and len(self.samples) < 12):
            s = {"rule": self.id, "construct": construct, "verdict": verdict}
            if loc:
                s["at"] = loc
            if detail is not None:
                s["detail"] = detail
            self.samples.append(s)

    def violate(self, construct, what, loc=None, detail=None):
        key = "%s:%s" % (self.id, construct)
        self.violations.append(Violation(self.id, key, what, loc, detail))
        self.inst(construct, loc, verdict="VIOLATION: " + what, detail=None)

    def require(self, floor, what="instances"):
        """Fail closed when the rule lost its anchors."""
        self.floor = floor
        if self.instances < floor:
            self.violations.append(Violation(
                self.id, "%s:<floor>" % self.id,
                "rule lost its anchors: %d %s analysed, at least %d expected (counted on the pinned tree)" % (
                    self.instances, what, floor), None))

    def note(self, s):
        self.notes.append(s)


class Ctx:
    def __init__(self, prop, tier, level="other"):
        self.prop = prop
        self.tier = tier
        self.level = level
        self.rules = []
        self.t0 = time.time()
        self.assumptions = []
        self.explanation = ""
        self.extra = {}
        self.analysed = {}

    def rule(self, rid, descr):
        r = Rule(self, rid, descr)
        self.rules.append(r)
        return r

    def adopt(self, other_run, wanted):
        """Run another property's rule module in a scratch context and take over the rules named in `wanted`
        ({their id: id here}): the same instances are then decided under this property too."""
        sub = Ctx(self.prop, self.tier, self.level)
        other_run(sub)
        for r in sub.rules:
            if r.id in wanted:
                old, new = r.id, wanted[r.id]
                r.id = new
                r.ctx = self
                for v in r.violations:
                    v.rule = new
                    if v.key.startswith(old + ":"):
                        v.key = new + v.key[len(old):]
                for smp in r.samples:
                    smp["rule"] = new
                self.rules.append(r)
        return sub

    def assume(self, s):
        if s not in self.assumptions:
            self.assumptions.append(s)

    # ---- finish

    def finish(self):
        known = load_known()
        viols = [v for r in self.rules for v in r.violations]
        unlisted = []
        listed = []
        for v in viols:
            k = match_known(known, self.prop, v.key)
            if k is not None:
                listed.append((v, k))
            else:
                unlisted.append(v)
        for r in self.rules:
            print("[%s] %-14s %4d instances (%d distinct)%s  %s" % (
                self.prop, r.id, r.instances, len(r.distinct),
                (" floor %d" % r.floor) if r.floor is not None else "", r.descr))
            for nt in r.notes:
                print("      note: " + nt)
            for u in r.undecided:
                print("      undecided: " + u)
        printed = set()
        for v, k in listed:
            if v.key in printed:   # the same listed finding reached through two engines (e.g. rustc and the static name check)
                continue
            printed.add(v.key)
            print("KNOWN-FINDING: property=%s %s — %s [%s]" % (self.prop, v.key, k.get("what_fails", v.what), v.loc or ""))
        outdir = os.path.join(VERIF, "out", self.prop)
        if unlisted:
            os.makedirs(outdir, exist_ok=True)
        for v in unlisted:
            fn = re.sub(r"[^A-Za-z0-9_.-]+", "_", v.key)[:150] + ".json"
            path = os.path.join(outdir, fn)
            with open(path, "w") as fh:
                json.dump({"property": self.prop, "rule": v.rule, "key": v.key, "what": v.what, "at": v.loc,
                           "detail": v.detail}, fh, indent=1, default=str)
            print("  %s at %s: %s" % (v.key, v.loc, v.what))
            if v.detail:
                d = v.detail if isinstance(v.detail, str) else json.dumps(v.detail, default=str)
                for line in d.splitlines()[:40]:
                    print("      " + line)
            print("VIOLATION property=%s replay=%s" % (self.prop, path))
        self.write_evidence(len(unlisted), listed)
        return 1 if unlisted else 0

    def write_evidence(self, nviol, listed):
        evals = sum(r.instances for r in self.rules)
        distinct = sum(len(r.distinct) for r in self.rules)
        samples = []
        for r in self.rules:
            samples.extend(r.samples[:3])
        cov = {
            "evaluations": evals,
            "distinct_nontrivial": distinct,
            "rule": "one evaluation = one (rule, construct) instance decided from /repo's current source by the "
                    "named static rule; distinct_nontrivial counts distinct constructs on which the rule had "
                    "something to decide (vacuous matches are not counted)",
            "samples": samples or [{"note": "no instance"}],
            "explanation": self.explanation,
            "rules": [{"id": r.id, "what": r.descr, "instances": r.instances, "distinct": len(r.distinct),
                       "floor": r.floor, "violations": len(r.violations), "notes": r.notes,
                       "undecided": r.undecided} for r in self.rules],
            "analysed": self.analysed,
            "known_findings_reported": [v.key for v, _ in listed],
        }
        cov.update(self.extra)
        ev = {
            "property_id": self.prop,
            "tier": self.tier,
            "seed": int(os.environ.get("VERIF_SEED", "0") or 0),
            "level": self.level,
            "coverage": cov,
            "assumptions": self.assumptions,
            "wall_s": round(time.time() - self.t0, 2),
            "violations": nviol,
        }
        # self-tests point PT_REPO at a scratch tree: their evidence must not overwrite the evidence about /repo
        evdir = os.path.join(VERIF, "evidence") if os.environ.get("PT_REPO", "/repo") == "/repo" else os.path.join(VERIF, ".work", "evidence-scratch")
        os.makedirs(evdir, exist_ok=True)
        with open(os.path.join(evdir, self.prop + ".json"), "w") as fh:
            json.dump(ev, fh, indent=1, default=str)


def load_known():
    p = os.path.join(VERIF, "known_findings.json")
    if not os.path.isfile(p):
        return []
    with open(p) as fh:
        return json.load(fh).get("findings", [])


def match_known(known, prop, key):
    for k in known:
        if k.get("status") == "open" and k.get("property") == prop and k.get("key") == key:
            return k
    return None
