"""TPL — recover `quote!` templates from typed HIR.

A `quote! { .. }` body is a block `{ let mut _s = TokenStream::new(); <push calls>; _s }`. Each push call is one
token; `ToTokens::to_tokens(&x, &mut _s)` is a hole `#x`; `#( .. )*` repetitions are nested blocks with a loop.
"""
from .hir import walk, strip_generics
from . import inv

Q = "quote::__private::"
PUNCT = {
    "push_colon2": "::", "push_lt": "<", "push_gt": ">", "push_comma": ",", "push_dot": ".", "push_semi": ";", "push_pound": "#",
    "push_bang": "!", "push_eq": "=", "push_and": "&", "push_or": "|", "push_star": "*", "push_add": "+", "push_sub": "-",
    "push_rarrow": "->", "push_fat_arrow": "=>", "push_colon": ":", "push_underscore": "_", "push_question": "?", "push_dot2": "..",
    "push_dot3": "...", "push_dot_dot_eq": "..=", "push_and_and": "&&", "push_or_or": "||", "push_eq_eq": "==", "push_ne": "!=",
    "push_le": "<=", "push_ge": ">=", "push_at": "@", "push_div": "/", "push_rem": "%", "push_caret": "^", "push_add_eq": "+=",
    "push_sub_eq": "-=", "push_shl": "<<", "push_shr": ">>", "push_dollar": "$", "push_tilde": "~",
}


def is_quote_block(e):
    """`{ let mut _s = TokenStream::new(); ...; _s }`"""
    if e.get("k") != "block" or not e.get("stmts"):
        return False
    s0 = e["stmts"][0]
    if s0["k"] != "let" or s0["pat"].get("k") != "bind" or s0["pat"].get("name") != "_s" or "init" not in s0:
        return False
    cal = s0["init"].get("callee")
    return bool(cal and strip_generics(cal["path"]).endswith("TokenStream::new"))


def hole_descr(crate, e):
    while e["k"] in ("addr_of", "use"):
        e = e["e"]
    return inv.short_descr(crate, e), e


def tokens_of_block(crate, blk):
    out = []
    for st in blk.get("stmts", [])[1:]:
        if st["k"] == "expr":
            out.extend(tokens_of_stmt(crate, st["e"]))
        elif st["k"] == "let" and "init" in st:
            # statements inside repetition scaffolding
            pass
    return out


def tokens_of_stmt(crate, e):
    k = e["k"]
    if k == "call" and e.get("callee"):
        p = strip_generics(e["callee"]["path"])
        if p.startswith(Q):
            nm = p[len(Q):]
            if nm in PUNCT:
                return [("punct", PUNCT[nm])]
            if nm in ("push_ident", "push_ident_spanned"):
                return [("ident", lit_str(e["args"][-1]))]
            if nm in ("push_lifetime", "push_lifetime_spanned"):
                return [("lifetime", lit_str(e["args"][-1]))]
            if nm in ("parse", "parse_spanned"):
                return [("lit", lit_str(e["args"][-1]))]
            if nm in ("push_group", "push_group_spanned"):
                delim = "?"
                for a in e["args"]:
                    if a["k"] == "def" and "Delimiter::" in (a.get("path") or ""):
                        delim = a["path"].rsplit("::", 1)[-1]
                inner = e["args"][-1]
                toks = tokens_of_block(crate, inner) if is_quote_block(inner) else [("hole", inv.short_descr(crate, inner), inner)]
                return [("group", delim, toks)]
            if nm.startswith("push_"):
                return [("punct", nm[5:])]
            return []
        if p.endswith("ToTokens::to_tokens"):
            d, node = hole_descr(crate, e["args"][0])
            return [("hole", d, node)]
        return []
    if k == "mcall" and e.get("callee") and strip_generics(e["callee"]["path"]).endswith("ToTokens::to_tokens"):
        d, node = hole_descr(crate, e["recv"])
        return [("hole", d, node)]
    if k == "block":
        # repetition scaffolding: collect the tokens pushed inside its loop
        inner = []
        sep = None
        for n in walk(e):
            if n["k"] == "loop":
                for m in n["body"].get("stmts", []):
                    if m["k"] == "expr":
                        x = m["e"]
                        if x["k"] == "if":
                            t = []
                            for q in x["then"].get("stmts", []):
                                if q["k"] == "expr":
                                    t.extend(tokens_of_stmt(crate, q["e"]))
                            if t:
                                sep = t
                        else:
                            inner.extend(tokens_of_stmt(crate, x))
                break
        if inner:
            return [("rep", inner, sep)]
        return []
    return []


def lit_str(e):
    while e["k"] in ("addr_of", "use"):
        e = e["e"]
    if e["k"] == "lit" and e["v"]:
        return e["v"].get("str")
    return None


def templates(crate, body):
    """All quote! templates in a body: list of dict(tokens, loc, node). Nested (group) templates are not listed separately."""
    out = []
    skip = set()
    inv._LETS = inv.collect_lets(body["value"])
    for n in walk(body["value"]):
        if id(n) in skip:
            continue
        if is_quote_block(n):
            toks = tokens_of_block(crate, n)
            out.append({"tokens": toks, "loc": crate.src_loc(n), "node": n})
            for m in walk(n):
                if m is not n and is_quote_block(m):
                    skip.add(id(m))
    return out


def render(toks):
    out = []
    for t in toks:
        if t[0] in ("ident", "punct", "lit", "lifetime"):
            out.append(str(t[1]))
        elif t[0] == "hole":
            out.append("#{%s}" % t[1])
        elif t[0] == "group":
            o, c = {"Parenthesis": "()", "Brace": "{}", "Bracket": "[]"}.get(t[1], "()")
            out.append(o + " " + render(t[2]) + " " + c)
        elif t[0] == "rep":
            out.append("#( " + render(t[1]) + " )" + (render(t[2]) if t[2] else "") + "*")
    return " ".join(out)


def flat(toks):
    """Tokens with groups flattened (for simple scans)."""
    for t in toks:
        if t[0] == "group":
            yield ("open", t[1])
            for x in flat(t[2]):
                yield x
            yield ("close", t[1])
        elif t[0] == "rep":
            for x in flat(t[1]):
                yield x
        else:
            yield t
