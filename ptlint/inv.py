"""INV — call graph, reachability and site inventories (panic-capable, usize subtraction, unsafe, state)."""
import json
import re
import os

from .hir import walk, strip_generics, children, pat_binds

VERIF = os.path.dirname(os.path.dirname(os.path.abspath(__file__)))

PANIC_CALLS = {
    "core::option::Option::unwrap": "unwrap", "core::option::Option::expect": "expect",
    "core::result::Result::unwrap": "unwrap", "core::result::Result::expect": "expect",
    "core::result::Result::unwrap_err": "unwrap", "core::option::Option::unwrap_unchecked": "unwrap_unchecked",
    "core::str::<impl str>::split_at": "split_at", "core::slice::<impl [T]>::split_at": "split_at",
    "alloc::vec::Vec::remove": "vec_remove", "alloc::vec::Vec::swap_remove": "vec_remove",
    "alloc::vec::Vec::insert": "vec_insert", "alloc::string::String::remove": "string_remove",
    "alloc::vec::Vec::drain": "drain", "core::slice::<impl [T]>::copy_from_slice": "copy_from_slice",
    "alloc::collections::vec_deque::VecDeque::remove": "vec_remove",
}
PANIC_MACROS = ("panic", "unreachable", "assert", "assert_eq", "assert_ne", "todo", "unimplemented")
DEBUG_MACROS = ("debug_assert", "debug_assert_eq", "debug_assert_ne")


class CallGraph:
    def __init__(self, crates):
        self.crates = crates
        self.bodies = {}
        self.crate_of = {}
        for c in crates:
            for bid, bs in c.bodies.items():
                if bid not in self.bodies:
                    self.bodies[bid] = bs[0]
                    self.crate_of[bid] = c
        # trait -> method name -> [impl method ids] (+ default)
        self.trait_impls = {}
        for c in crates:
            for it in c.impls():
                tr = it.get("trait")
                if not tr:
                    continue
                for m in it.get("items", []):
                    if m["kind"] == "AssocFn":
                        self.trait_impls.setdefault((tr, m["name"]), []).append(m["id"])
        self.edges = {}
        for bid, b in self.bodies.items():
            self.edges[bid] = self._edges(self.crate_of[bid], b)

    def _edges(self, c, body):
        out = set()
        for n in walk(body["value"]):
            cal = n.get("callee")
            if n.get("k") == "def" and n.get("kind") in ("Fn", "AssocFn") and n.get("path"):
                cal = n
            if not cal:
                continue
            p = cal["path"]
            inst = cal.get("inst")
            if inst and inst in self.bodies:
                out.add(inst)
                continue
            if p in self.bodies:
                out.add(p)
            tr = cal.get("trait")
            if tr:
                name = strip_generics(p).rsplit("::", 1)[-1]
                for t in self.trait_impls.get((tr, name), []):
                    if t in self.bodies:
                        out.add(t)
        return out

    def reachable(self, entries):
        seen = set()
        stack = [e for e in entries if e in self.bodies]
        while stack:
            f = stack.pop()
            if f in seen:
                continue
            seen.add(f)
            stack.extend(self.edges.get(f, ()))
        return seen

    def path_to(self, entries, target):
        """One call path entry -> ... -> target (for diagnostics)."""
        from collections import deque
        prev = {}
        dq = deque(e for e in entries if e in self.bodies)
        for e in list(dq):
            prev[e] = None
        while dq:
            f = dq.popleft()
            if f == target:
                out = []
                while f is not None:
                    out.append(f)
                    f = prev[f]
                return list(reversed(out))
            for g in self.edges.get(f, ()):
                if g not in prev:
                    prev[g] = f
                    dq.append(g)
        return None


_LETS = {}
_MARK = False  # when set (inside sites()), names of locals that stay in a description are bracketed so keyed() can alpha-rename them


def _nm(e):
    n = e.get("name", "?")
    return "\x00%s\x01" % n if _MARK else n


def collect_lets(body_value):
    """var -> ('let'|'part', init expr) for single-assignment locals (let x = e; if let P(x) = e; match e { P(x) => })."""
    lets = {}
    assigned = set()
    for n in walk(body_value):
        k = n["k"]
        if k == "block":
            for s in n.get("stmts", []):
                if s["k"] == "let" and "init" in s:
                    if s["pat"].get("k") == "bind":
                        lets[s["pat"]["var"]] = ("let", s["init"])
                    else:
                        for b in pat_binds(s["pat"]):
                            lets[b["var"]] = ("part", s["init"])
        elif k == "let_cond":
            for b in pat_binds(n["pat"]):
                lets[b["var"]] = ("part", n["init"])
        elif k == "match" and n.get("src") == "normal":
            for arm in n["arms"]:
                for b in pat_binds(arm["pat"]):
                    lets[b["var"]] = ("part", n["scrut"])
        elif k == "match" and n.get("src") == "for" and n["scrut"].get("args"):
            # for PAT in ITER { .. }: PAT's variables are elements of ITER
            it = n["scrut"]["args"][0]
            for m in walk(n["arms"][0]["body"]):
                if m["k"] == "match" and m.get("src") == "for":
                    for arm in m["arms"]:
                        for b in pat_binds(arm["pat"]):
                            lets[b["var"]] = ("each", it)
                    break
        elif k in ("assign", "assign_op") and n["l"]["k"] == "local":
            assigned.add(n["l"]["var"])
    for v in assigned:
        lets.pop(v, None)
    # assigned variables: remember every value they are given (scheme 5: and the `for` loops the assignment sits in — how often an
    # accumulator is bumped is part of what it holds; mutation scan: `for _ in 0..n` -> `1..n` in Input::skip left the key unchanged)
    loops_of = {}
    if _SCHEME >= 5:
        def rec(n, fors):
            if n["k"] == "match" and n.get("src") == "for" and n["scrut"].get("args"):
                src = n["scrut"]["args"][0]
                while src["k"] in ("addr_of", "use", "cast"):
                    src = src["e"]
                # counting loops only (`a..b`): for a loop over a collection the drawn element (`each(src)`) already names the source
                if src["k"] == "struct" and "ops::range::Range" in ((src.get("res") or {}).get("path") or ""):
                    fors = fors + [src]
            if n["k"] in ("assign", "assign_op"):
                loops_of[id(n)] = fors
            for ch in children(n):
                rec(ch, fors)
        rec(body_value, [])
    for n in walk(body_value):
        k = n["k"]
        if k in ("assign", "assign_op") and n["l"]["k"] == "local" and n["l"]["var"] in assigned:
            op = n.get("op", "=")
            fs_ = loops_of.get(id(n)) or []
            if fs_:
                lets.setdefault(n["l"]["var"], ("mut", []))[1].append((op, n["r"], fs_))
                continue
            lets.setdefault(n["l"]["var"], ("mut", []))[1].append((n.get("op", "="), n["r"]))
        if k == "block":
            for s in n.get("stmts", []):
                if s["k"] == "let" and "init" in s and s["pat"].get("k") == "bind" and s["pat"]["var"] in assigned:
                    lets.setdefault(s["pat"]["var"], ("mut", []))[1].insert(0, ("init", s["init"]))
    return lets


ITER_ADAPTERS = ("peekable", "enumerate", "iter", "into_iter", "by_ref", "iter_mut")
ITER_DRAW = ("peek", "next", "peek_mut")


_SCHEME = 5      # key scheme version; lowered only by the key-migration script (4 = before `@for(range)` on accumulator updates, 3 = before `match S {Some(v) => v, None => diverge}` as `(S)?`, 2 = before if-diverge / !! / bool::then guards, 1 = before each(..) and plain bool guards)


_CRATE = None     # the crate whose sites are being keyed (set by sites()); lets iter_source see through single-expression wrappers


def iter_source(e, seen_iter=False):
    """For the expression a pattern draws its bindings from: if it is an element drawn from an iterator (`it.peek()`,
    `it.next()`, or the iterated expression of a `for`), the underlying source with position-preserving adapters removed."""
    for _ in range(12):
        while e["k"] in ("addr_of", "use", "cast") or (e["k"] == "unary" and e.get("op") == "*"):
            e = e["e"]
        if e["k"] == "local":
            d = _LETS.get(e.get("var"))
            if d is not None and d[0] == "let":
                e = d[1]
                continue
            return e if seen_iter else None
        if e["k"] == "mcall" and e["name"] in ITER_DRAW + ITER_ADAPTERS and not e["args"]:
            seen_iter = True
            e = e["recv"]
            continue
        if _SCHEME >= 4 and _CRATE is not None and e["k"] in ("call", "mcall") and e.get("callee"):
            w = _wrapper_body(_CRATE, e)
            if w is not None:
                params, body = w
                args = ([e["recv"]] if e["k"] == "mcall" else []) + list(e["args"])
                for p, a in zip(params, args):
                    _LETS[p] = ("let", a)
                e = body
                continue
        if e["k"] == "call" and e.get("callee") and strip_generics(e["callee"]["path"]).endswith("IntoIterator::into_iter") and e["args"]:
            seen_iter = True
            e = e["args"][0]
            continue
        return e if seen_iter else None
    return None


def is_draw(e):
    """`it.next()` / `it.peek()` on an iterator *variable* (a loop drawing successive elements, not `fresh().next()`)."""
    while e["k"] in ("addr_of", "use", "cast"):
        e = e["e"]
    if not (e["k"] == "mcall" and e["name"] in ITER_DRAW and not e["args"]):
        return False
    r = e["recv"]
    while r["k"] in ("addr_of", "use", "cast"):
        r = r["e"]
    return r["k"] == "local" and _LETS.get(r.get("var"), ("",))[0] in ("let", "mut")


def _wrapper_body(c, call):
    """(param vars, body expression) if the callee is a function of this crate whose body is a single expression without
    statements, control flow or closures, and whose parameters are plain bindings; else None."""
    path = call["callee"]["path"]
    if not path.startswith(c.name + "::"):
        return None
    fid = strip_generics(path) if c.body(strip_generics(path)) is not None else path
    b = c.body(fid)
    if b is None:
        return None
    it = c.item(fid)
    if it is None or it.get("parent_kind") in ("Trait", "Impl { of_trait: true }"):
        return None         # trait methods dispatch: only free functions and inherent methods are what their body says
    body = b["value"]
    while body["k"] == "block" and not body.get("stmts") and "tail" in body and not body.get("unsafe"):
        body = body["tail"]
    if body["k"] not in ("mcall", "call", "field", "binary", "unary", "index"):
        return None
    if any(n["k"] in ("if", "match", "loop", "closure", "ret", "block", "assign", "assign_op") for n in walk(body)):
        return None
    params = []
    for p in b.get("params", []):
        if p.get("k") != "bind":
            return None
        params.append(p["var"])
    nargs = len(call.get("args") or []) + (1 if call["k"] == "mcall" else 0)
    if len(params) != nargs:
        return None
    return params, body


def short_descr(c, e, depth=0):
    """Compact, line-free description of an expression (for site keys); single-assignment locals are resolved."""
    if depth > 8:
        return ".."
    k = e["k"]
    if k == "local":
        d = _LETS.get(e.get("var"))
        if d is not None and depth < 7:
            kind, init = d
            if kind == "mut":
                def one(x):
                    txt = "%s %s" % (x[0], short_descr(c, x[1], depth + 3))
                    if len(x) > 2:
                        txt += " @for(%s)" % ",".join(short_descr(c, f, depth + 3) for f in x[2])
                    return txt
                return "%s<%s>" % (_nm(e), "; ".join(one(x) for x in init))
            if kind in ("each", "part") and _SCHEME >= 2:
                src = iter_source(init, kind == "each")
                if src is not None:
                    return "each(%s)" % short_descr(c, src, depth + 1)
            s = short_descr(c, init, depth + 1)
            if kind == "each":
                return "each(%s)" % s
            return s if kind == "let" else "(%s)?" % s
        return _nm(e)
    if k == "field":
        return short_descr(c, e["base"], depth + 1) + "." + e["name"]
    if k in ("addr_of", "use", "cast"):
        return short_descr(c, e["e"], depth)
    if k == "unary":
        return e["op"] + short_descr(c, e["e"], depth + 1)
    if k in ("mcall", "call") and _SCHEME >= 4 and e.get("callee") and depth < 6:
        # a crate-local wrapper whose body is one expression (`fn peek_char(i: &I) -> Option<char> { i.chars().next() }`) is what it wraps
        w = _wrapper_body(c, e)
        if w is not None:
            params, body = w
            args = ([e["recv"]] if k == "mcall" else []) + list(e["args"])
            saved = {p: _LETS.get(p) for p in params}
            for p, a in zip(params, args):
                _LETS[p] = ("let", a)
            try:
                return short_descr(c, body, depth + 1)
            finally:
                for p, v in saved.items():
                    if v is None:
                        _LETS.pop(p, None)
                    else:
                        _LETS[p] = v
    if k == "mcall":
        return "%s.%s(%s)" % (short_descr(c, e["recv"], depth + 1), e["name"], ",".join(short_descr(c, a, depth + 1) for a in e["args"]))
    if k == "call":
        nm = strip_generics(e["callee"]["path"]).rsplit("::", 1)[-1] if e.get("callee") else "f"
        return "%s(%s)" % (nm, ",".join(short_descr(c, a, depth + 1) for a in e["args"]))
    if k == "lit":
        v = e["v"] or {}
        return str(v.get("int", v.get("str", v.get("bool", v.get("char", "lit")))))
    if k == "binary":
        return "%s%s%s" % (short_descr(c, e["l"], depth + 1), e["op"], short_descr(c, e["r"], depth + 1))
    if k == "index":
        return "%s[%s]" % (short_descr(c, e["base"], depth + 1), short_descr(c, e["idx"], depth + 1))
    if k == "struct":
        nm = (e.get("res") or {}).get("path", "?").rsplit("::", 1)[-1]
        return "%s{%s}" % (nm, ",".join(short_descr(c, f["e"], depth + 1) for f in e["fields"]))
    if k == "block" and not e.get("stmts") and "tail" in e:
        return short_descr(c, e["tail"], depth)
    if k == "block" and "tail" in e:
        if _SCHEME >= 4 and _peel_block(e["tail"])["k"] == "local":
            # `{ let mut x = ..; ..; x }`: the statements only build the local, whose description already tells how
            return short_descr(c, e["tail"], depth)
        return "{..; %s}" % short_descr(c, e["tail"], depth + 1)
    if k == "if" and _SCHEME >= 3 and "else" in e and diverges(e["else"]) and not diverges(e["then"]):
        return short_descr(c, e["then"], depth)
    if k == "if":
        cond = e["cond"]
        cd = ("%s~%s" % (short_descr(c, cond["init"], depth + 1), pat_descr(cond["pat"]))) if cond["k"] == "let_cond" else short_descr(c, cond, depth + 1)
        return "if(%s){%s}else{%s}" % (cd, short_descr(c, e["then"], depth + 1), short_descr(c, e["else"], depth + 1) if "else" in e else "")
    if k in ("continue", "break", "ret"):
        return k
    if k == "match":
        if _SCHEME >= 4 and e.get("src") == "normal":
            # `match S { Some(v) => v, None => diverge }` is the let-else / `?` spelling of the same value: `(S)?`
            live = [a for a in e["arms"] if not diverges(a["body"])]
            if len(live) == 1 and len(e["arms"]) >= 2:
                body = live[0]["body"]
                while body["k"] in ("block",) and not body.get("stmts") and "tail" in body:
                    body = body["tail"]
                binds = list(pat_binds(live[0]["pat"]))
                if body["k"] == "local" and len(binds) == 1 and binds[0]["var"] == body["var"]:
                    return "(%s)?" % short_descr(c, e["scrut"], depth + 1)
        return "match(%s)" % short_descr(c, e["scrut"], depth + 1)
    if k == "assign":
        return "%s = %s" % (short_descr(c, e["l"], depth + 1), short_descr(c, e["r"], depth + 1))
    if k == "assign_op":
        return "%s %s %s" % (short_descr(c, e["l"], depth + 1), e["op"], short_descr(c, e["r"], depth + 1))
    if k == "def":
        return (e.get("path") or "def").rsplit("::", 1)[-1]
    return k


def pat_descr(p):
    k = p["k"]
    if k in ("tstruct", "struct"):
        return p["res"].get("path", "?").rsplit("::", 1)[-1]
    if k == "expr":
        if p.get("lit"):
            v = p["lit"]
            return str(v.get("int", v.get("bool", v.get("char", v.get("str", "lit")))))
        return (p.get("res") or {}).get("path", "?").rsplit("::", 1)[-1]
    if k == "range":
        lo = (p.get("lo") or {})
        hi = (p.get("hi") or {})
        f = lambda v: str(v.get("int", "")) if isinstance(v, dict) else ""
        return "%s..%s%s" % (f(lo), "=" if p.get("incl") else "", f(hi))
    if k == "or":
        return "|".join(pat_descr(x) for x in p["ps"])
    if k in ("ref", "deref"):
        return pat_descr(p["p"])
    if k == "tuple":
        return "(" + ",".join(pat_descr(x) for x in p["ps"]) + ")"
    return "_"


_EARLY = True  # early exits (`if c { return .. }` as a statement) guard the statements after them


def _cond_descr(c, cond):
    if cond["k"] == "let_cond":
        return "%s~%s" % (short_descr(c, cond["init"]), pat_descr(cond["pat"]))
    if cond["k"] == "lit" and "cfg" in c.macros(cond):
        return "cfg!(..)"
    return short_descr(c, cond)


def _peel_block(e):
    while e["k"] == "block" and not e.get("stmts") and "tail" in e:
        e = e["tail"]
    return e


def diverges(e):
    """The expression certainly does not complete normally: return / break / continue / panic as its last step."""
    k = e["k"]
    if k in ("ret", "break", "continue"):
        return True
    if k == "block":
        if "tail" in e:
            return diverges(e["tail"])
        st = e.get("stmts") or []
        return bool(st) and st[-1]["k"] == "expr" and diverges(st[-1]["e"])
    if k == "call" and e.get("callee") and strip_generics(e["callee"]["path"]).startswith(("core::panicking::", "std::rt::begin_panic")):
        return True
    if k == "if" and "else" in e:
        return diverges(e["then"]) and diverges(e["else"])
    if k == "match" and e.get("arms"):
        return all(diverges(a["body"]) for a in e["arms"])
    return False


def _neg(g):
    """Guard for the negation of g; `!(!(x))` is x."""
    if _SCHEME >= 3 and g.startswith("!(!") and g.endswith(")"):
        inner = g[2:-1]          # "!x.."
        core = inner[1:]
        if core.startswith("(") and core.endswith(")"):
            core = core[1:-1]
        return core
    return g


def walk_guarded(c, e, guards=()):
    """Pre-order walk yielding (node, guards) where guards are the dominating branch conditions (line-free)."""
    yield e, guards
    k = e["k"]
    if _SCHEME >= 3 and k == "mcall" and e.get("callee") and strip_generics(e["callee"]["path"]) == "core::bool::<impl bool>::then" \
            and e["args"] and e["args"][0]["k"] == "closure":
        # `cond.then(|| body)`: body runs under cond
        for x in walk_guarded(c, e["recv"], guards):
            yield x
        g = short_descr(c, e["recv"])
        yield e["args"][0], guards
        for x in walk_guarded(c, e["args"][0]["body"], guards + (g,)):
            yield x
        return
    if k == "block" and _EARLY and e.get("stmts"):
        g = guards
        per = []
        for st in e["stmts"]:
            per.append((st, g))
            if st["k"] == "expr" and st["e"]["k"] == "if" and diverges(st["e"]["then"]):
                if "else" not in st["e"]:
                    g = g + (_neg("!(" + _cond_descr(c, st["e"]["cond"]) + ")"),)
            elif st["k"] == "expr" and st["e"]["k"] == "if" and "else" in st["e"] and diverges(st["e"]["else"]) and not diverges(st["e"]["then"]):
                g = g + (_cond_descr(c, st["e"]["cond"]),)
            elif _SCHEME >= 4 and st["k"] == "let" and "els" not in st and "init" in st and _peel_block(st["init"])["k"] == "if" and \
                    "else" in _peel_block(st["init"]) and diverges(_peel_block(st["init"])["else"]) and not diverges(_peel_block(st["init"])["then"]):
                # `let v = if c { A } else { diverge };` — what follows runs only where c held (same as the let-else spelling)
                ci = _peel_block(st["init"])["cond"]
                if not (ci["k"] == "let_cond" and pat_descr(ci["pat"]) == "Some" and is_draw(ci["init"])):
                    g = g + (_cond_descr(c, ci),)
            elif _SCHEME >= 4 and st["k"] == "let" and "els" not in st and "init" in st and _peel_block(st["init"])["k"] == "match" and \
                    _peel_block(st["init"]).get("src") == "normal" and len([a for a in _peel_block(st["init"])["arms"] if not diverges(a["body"])]) == 1 \
                    and len(_peel_block(st["init"])["arms"]) >= 2:
                m = _peel_block(st["init"])
                live = [a for a in m["arms"] if not diverges(a["body"])][0]
                pd = pat_descr(live["pat"])
                if not (pd == "Some" and is_draw(m["scrut"])):
                    sd = short_descr(c, m["scrut"])
                    g = g + (sd if pd in ("True", "true") else ("!(" + sd + ")" if pd in ("False", "false") else "%s~%s" % (sd, pd)),)
            elif _SCHEME >= 4 and st["k"] == "let" and "els" in st and "init" in st and diverges(st["els"]):
                # `let PAT = e else { diverge };` guards what follows like `if let PAT = e { .. }`
                if not (pat_descr(st["pat"]) == "Some" and is_draw(st["init"])):
                    g = g + ("%s~%s" % (short_descr(c, st["init"]), pat_descr(st["pat"])),)
        if "tail" in e:   # same order as hir.children: tail first
            for x in walk_guarded(c, e["tail"], g):
                yield x
        for st, gs in per:
            subs = ([st["init"]] if "init" in st else []) + ([st["els"]] if "els" in st else []) if st["k"] == "let" else ([st["e"]] if st["k"] == "expr" else [])
            for sub in subs:
                for x in walk_guarded(c, sub, gs):
                    yield x
        return
    if k == "if":
        cond = e["cond"]
        for x in walk_guarded(c, cond, guards):
            yield x
        if cond["k"] == "let_cond" and _SCHEME >= 2 and pat_descr(cond["pat"]) == "Some" and is_draw(cond["init"]):
            # `while let Some(x) = it.peek()/next()`: "the iterator had an element" is what each(..) already says
            for x in walk_guarded(c, e["then"], guards):
                yield x
            if "else" in e:
                for x in walk_guarded(c, e["else"], guards + ("!(%s~Some)" % short_descr(c, cond["init"]),)):
                    yield x
            return
        if cond["k"] == "let_cond":
            g = "%s~%s" % (short_descr(c, cond["init"]), pat_descr(cond["pat"]))
        elif cond["k"] == "lit" and "cfg" in c.macros(cond):
            g = "cfg!(..)"
        else:
            g = short_descr(c, cond)
        for x in walk_guarded(c, e["then"], guards + (g,)):
            yield x
        if "else" in e:
            for x in walk_guarded(c, e["else"], guards + (_neg("!(" + g + ")"),)):
                yield x
        return
    if k == "match" and e.get("src") == "normal":
        for x in walk_guarded(c, e["scrut"], guards):
            yield x
        sd = short_descr(c, e["scrut"])
        for arm in e["arms"]:
            pd = pat_descr(arm["pat"])
            # `match b { true => .., false => .. }` guards like `if b {..} else {..}`
            if _SCHEME >= 2 and pd == "Some" and is_draw(e["scrut"]):
                for x in walk_guarded(c, arm["body"], guards):
                    yield x
                continue
            g = "%s~%s" % (sd, pd) if _SCHEME < 2 else sd if pd in ("True", "true") else ("!(" + sd + ")" if pd in ("False", "false") else "%s~%s" % (sd, pd))
            if "guard" in arm:
                for x in walk_guarded(c, arm["guard"], guards + (g,)):
                    yield x
            for x in walk_guarded(c, arm["body"], guards + (g,)):
                yield x
        return
    for ch in children(e):
        for x in walk_guarded(c, ch, guards):
            yield x


def sites(c, fid, body, kinds):
    """Yield dict(kind, what, descr, loc, node) for sites of the requested kinds inside a body."""
    global _LETS, _MARK, _CRATE
    _LETS = collect_lets(body["value"])
    _MARK = True
    _CRATE = c
    try:
        for s in _sites(c, fid, body, kinds):
            yield s
    finally:
        _MARK = False


def _sites(c, fid, body, kinds):
    for n, guards in walk_guarded(c, body["value"]):
        k = n["k"]
        gtxt = (" under " + " && ".join(guards)) if guards else ""
        mb = c.macros(n)
        if "panic" in kinds:
            cal = n.get("callee")
            if cal:
                base = strip_generics(cal["path"])
                if base in PANIC_CALLS:
                    args = ([n["recv"]] if k == "mcall" else []) + n.get("args", [])
                    yield dict(kind="panic", what=PANIC_CALLS[base], descr=(short_descr(c, args[0]) if args else "") + gtxt, loc=c.loc(n.get("sp")), node=n)
                elif base.startswith("core::panicking::") or base.startswith("std::rt::begin_panic") or base == "core::panicking::panic_fmt":
                    macro = next((m for m in reversed(mb) if m in PANIC_MACROS), None)
                    dbg = next((m for m in mb if m in DEBUG_MACROS), None)
                    if dbg:
                        if "debug" in kinds:
                            yield dict(kind="debug_assert", what=dbg + "!", descr=gtxt.strip(), loc=c.src_loc(n), node=n)
                    else:
                        yield dict(kind="panic", what=(macro or "panic") + "!", descr=gtxt.strip(), loc=c.src_loc(n), node=n)
            if k == "index":
                bt = c.tys(n["base"].get("ty")) if n["base"].get("ty") is not None else "?"
                it = c.tys(n["idx"].get("ty")) if n["idx"].get("ty") is not None else "?"
                yield dict(kind="panic", what="index", descr="%s[%s] on %s%s" % (short_descr(c, n["base"]), short_descr(c, n["idx"]), bt.replace("&", "").split("<")[0], gtxt),
                           loc=c.loc(n.get("sp")), node=n, idx_ty=it)
            # signed arithmetic that panics on overflow when overflow checks are on (dev / test profile)
            SIGNED = ("i8", "i16", "i32", "i64", "i128", "isize")
            if cal and re.match(r"core::num::<impl i\w+>::(abs|pow|neg)$", strip_generics(cal["path"])):
                args = ([n["recv"]] if k == "mcall" else []) + n.get("args", [])
                yield dict(kind="panic", what="signed " + strip_generics(cal["path"]).rsplit("::", 1)[-1], descr=(short_descr(c, args[0]) if args else "") + gtxt,
                           loc=c.loc(n.get("sp")), node=n)
            if k == "unary" and n.get("op") == "-" and n["e"]["k"] != "lit" and c.tys(n.get("ty")) in SIGNED:
                yield dict(kind="panic", what="signed neg", descr=short_descr(c, n["e"]) + gtxt, loc=c.loc(n.get("sp")), node=n)
            if k in ("binary", "assign_op") and n.get("op") in ("+", "-", "*", "+=", "-=", "*="):
                ty = c.tys(n.get("ty")) if k == "binary" else c.tys(n["l"].get("ty"))
                if ty in SIGNED:
                    yield dict(kind="panic", what="signed " + n["op"], descr="%s %s %s%s" % (short_descr(c, n["l"]), n["op"], short_descr(c, n["r"]), gtxt),
                               loc=c.loc(n.get("sp")), node=n)
        if "usub" in kinds and k in ("binary", "assign_op") and n["op"] in ("-", "-="):
            ty = c.tys(n.get("ty")) if k == "binary" else c.tys(n["l"].get("ty"))
            if ty in ("usize", "u32", "u64", "u8", "u16"):
                yield dict(kind="usub", what=n["op"], descr="%s - %s%s" % (short_descr(c, n["l"]), short_descr(c, n["r"]), gtxt), loc=c.loc(n.get("sp")), node=n)
        if "div" in kinds and k == "binary" and n["op"] in ("/", "%"):
            if n["r"]["k"] != "lit":
                yield dict(kind="div", what=n["op"], descr="%s %s %s" % (short_descr(c, n["l"]), n["op"], short_descr(c, n["r"])), loc=c.loc(n.get("sp")), node=n)
        if "unsafe" in kinds and k == "block" and n.get("unsafe"):
            if not mb:  # unsafe blocks from expansions of std macros (format_args!) are not the repo's
                inner = n.get("tail") or (n["stmts"][0].get("e") if n.get("stmts") and n["stmts"][0]["k"] == "expr" else n)
                yield dict(kind="unsafe", what="unsafe block", descr=short_descr(c, inner) + gtxt, loc=c.loc(n.get("sp")), node=n)


_MARKED = re.compile("\x00(.*?)\x01")


def alpha(d, legacy=False):
    """Names of locals left in a description (parameters, mutable locals, names beyond the resolution depth) are replaced
    by $1, $2.. in order of first occurrence, so that renaming a local does not change a key; `self` stays."""
    if legacy:
        return _MARKED.sub(lambda m: m.group(1), d)
    names = {}

    def rep(m):
        n = m.group(1)
        if n == "self":
            return n
        return names.setdefault(n, "$%d" % (len(names) + 1))
    return _MARKED.sub(rep, d)


def keyed(site_list, fid, legacy=False):
    """Assign line-free keys: (fn, kind, what, descr, ordinal among equals)."""
    import hashlib
    seen = {}
    out = []
    for s in site_list:
        d = s["descr"] = alpha(s["descr"], legacy)
        if len(d) > 260:
            d = d[:200] + " ...#" + hashlib.sha1(d.encode()).hexdigest()[:10]
        base = "%s | %s %s | %s" % (fid, s["kind"], s["what"], d)
        i = seen.get(base, 0)
        seen[base] = i + 1
        s["key"] = base + (" #%d" % i if i else "")
        out.append(s)
    return out


def load_table(name):
    p = os.path.join(VERIF, "tables", name)
    if not os.path.isfile(p):
        return {}
    with open(p) as fh:
        d = json.load(fh)
    return {e["key"]: e["reason"] for e in d.get("entries", [])}
