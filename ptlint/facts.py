"""Build (or reuse) HIR-lite facts for /repo's current tree and load them.

Facts are produced by the ptfacts rustc driver under `cargo +nightly check`.
They are cached under /verif/.work/facts/<key> where <key> hashes every source
file of /repo (outside target/ and .git/), Cargo.lock, the fixtures, the driver
binary and the unit set; a check never reuses facts of a different tree.
"""
import fcntl
import hashlib
import json
import os
import shutil
import subprocess
import sys
import time

VERIF = os.path.dirname(os.path.dirname(os.path.abspath(__file__)))
REPO = os.environ.get("PT_REPO", "/repo")
WORK = os.path.join(VERIF, ".work")
DRIVER = os.environ.get("PT_DRIVER") or os.path.join(VERIF, "ptfacts", "target", "release", "ptfacts")


def _sysroot():
    return subprocess.check_output(["rustc", "+nightly", "--print", "sysroot"], text=True).strip()


def _hash_tree(root, h, skip_dirs=("target", ".git", ".work", "out", "evidence", "__pycache__"), skip_files=()):
    for dp, dn, fn in os.walk(root):
        dn[:] = sorted(d for d in dn if d not in skip_dirs)
        for f in sorted(fn):
            p = os.path.join(dp, f)
            if f in skip_files:
                continue
            if os.path.islink(p) or not os.path.isfile(p):
                continue
            h.update(os.path.relpath(p, root).encode())
            h.update(b"\0")
            with open(p, "rb") as fh:
                h.update(fh.read())
            h.update(b"\0")


def tree_key(unit):
    h = hashlib.sha256()
    _hash_tree(REPO, h)
    fxdir = os.path.join(VERIF, "fixtures", unit)
    if os.path.isdir(fxdir):
        _hash_tree(fxdir, h, skip_files=("Cargo.lock",))
    with open(DRIVER, "rb") as fh:
        h.update(fh.read())
    h.update(unit.encode())
    return h.hexdigest()[:20]


# ---------------------------------------------------------------------------
# units: name -> list of cargo invocations
#   each: (cwd, cargo args, wanted crates, tag, extra rustflags, nobodies)

def _units():
    fx = os.path.join(VERIF, "fixtures")
    u = {
        # runtime (debug), generator, pest, pest_meta
        "core": [
            dict(cwd=REPO, args=["-p", "pest_typed", "-p", "pest_typed_generator"],
                 crates="pest_typed,pest_typed_generator,pest,pest_meta", tag="", flags=""),
        ],
        # runtime with debug assertions off (what release builds compile)
        "rel": [
            dict(cwd=REPO, args=["-p", "pest_typed"], crates="pest_typed", tag=".rel",
                 flags="-C debug-assertions=off"),
        ],
        "nostd": [
            dict(cwd=REPO, args=["-p", "pest_typed", "--no-default-features"], crates="pest_typed",
                 tag=".nostd", flags=""),
            dict(cwd=REPO, args=["-p", "pest_typed", "--no-default-features"], crates="pest_typed",
                 tag=".nostd.rel", flags="-C debug-assertions=off"),
        ],
        "extras": [
            dict(cwd=REPO, args=["-p", "pest_typed_generator", "--features", "grammar-extras"],
                 crates="pest_typed_generator", tag=".extras", flags=""),
        ],
    }
    # fixtures: every directory under fixtures/ with a Cargo.toml; unit name = dir name
    if os.path.isdir(fx):
        for d in sorted(os.listdir(fx)):
            if os.path.isfile(os.path.join(fx, d, "Cargo.toml")):
                u[d] = [dict(cwd=os.path.join(fx, d), args=[], crates=d + ",pest_generator", tag="", flags="",
                             fixture=True, may_fail=(d in ("fx_rawrep", "fx_boxing", "fx_options", "fx_options_q")))]
    return u


def _run_unit(unit, out_dir, log):
    units = _units()
    if unit not in units:
        raise SystemExit("unknown facts unit " + unit)
    env = dict(os.environ)
    env["LD_LIBRARY_PATH"] = _sysroot() + "/lib" + (":" + env["LD_LIBRARY_PATH"] if env.get("LD_LIBRARY_PATH") else "")
    env["CARGO_NET_OFFLINE"] = "true"
    env["CARGO_INCREMENTAL"] = "0"
    env["RUSTC_WRAPPER"] = DRIVER
    env.pop("RUSTC_WORKSPACE_WRAPPER", None)
    for i, inv in enumerate(units[unit]):
        tgt = os.path.join(WORK, "target", "%s-%d-%d" % (unit, i, os.getpid()))
        env["CARGO_TARGET_DIR"] = tgt
        env["PTFACTS_CRATES"] = inv["crates"]
        env["PTFACTS_OUT"] = out_dir
        env["PTFACTS_TAG"] = inv["tag"]
        env["RUSTFLAGS"] = ("-Awarnings " + inv["flags"]).strip()
        cwd = inv["cwd"]
        scratch = None
        if inv.get("fixture"):
            # fixtures path-depend on the repository under analysis: build a scratch copy whose manifest points at REPO
            # (normally /repo) and that resolves exactly like it (same Cargo.lock)
            scratch = os.path.join(WORK, "fx", "%s-%d" % (unit, os.getpid()))
            shutil.rmtree(scratch, ignore_errors=True)
            shutil.copytree(inv["cwd"], scratch, ignore=shutil.ignore_patterns("target", "Cargo.lock"))
            mf = os.path.join(scratch, "Cargo.toml")
            with open(mf) as fh:
                txt = fh.read()
            with open(mf, "w") as fh:
                fh.write(txt.replace('"/repo/', '"%s/' % REPO.rstrip("/")))
            lock = os.path.join(REPO, "Cargo.lock")
            if os.path.isfile(lock):
                shutil.copy(lock, os.path.join(scratch, "Cargo.lock"))
            cwd = scratch
        cmd = ["cargo", "+nightly", "check", "--offline"] + inv["args"]
        t0 = time.time()
        try:
            p = subprocess.run(cmd, cwd=cwd, env=env, stdout=subprocess.PIPE, stderr=subprocess.STDOUT, text=True)
        finally:
            shutil.rmtree(tgt, ignore_errors=True)
            if scratch:
                shutil.rmtree(scratch, ignore_errors=True)
        log.write("$ (cd %s; %s)  [%0.1fs, rc=%d]\n" % (inv["cwd"], " ".join(cmd), time.time() - t0, p.returncode))
        if p.returncode != 0:
            log.write(p.stdout[-6000:])
            if inv.get("may_fail"):
                # a fixture whose compile errors are themselves the evidence (rustc as decision procedure)
                with open(os.path.join(out_dir, "rustc_errors.txt"), "w") as fh:
                    fh.write(p.stdout)
                continue
            raise BuildFailed(unit, p.stdout[-3000:])


class BuildFailed(Exception):
    def __init__(self, unit, out):
        Exception.__init__(self, "facts unit %s failed to build:\n%s" % (unit, out))
        self.unit = unit
        self.out = out


def ensure(unit):
    """Return the directory holding facts of `unit` for the current tree."""
    if not os.path.isfile(DRIVER):
        raise SystemExit("ptfacts driver not built; run MANIFEST.setup_cmd (./setup.sh)")
    os.makedirs(os.path.join(WORK, "facts"), exist_ok=True)
    key = tree_key(unit)
    d = os.path.join(WORK, "facts", unit + "-" + key)
    lockf = open(os.path.join(WORK, "facts", ".lock-" + unit), "w")
    fcntl.flock(lockf, fcntl.LOCK_EX)
    try:
        if os.path.isfile(os.path.join(d, "DONE")):
            try:
                os.utime(d, None)      # mark the generation as in use (eviction below goes by last use)
            except OSError:
                pass
            return d
        # drop stale generations of this unit: keep the 8 most recently used ones, and never one used in the last twenty minutes (a check run takes a few minutes; a run that loses a generation to a concurrent one rebuilds it)
        # (concurrent runs on other trees may be reading them)
        gens = []
        for old in os.listdir(os.path.join(WORK, "facts")):
            if old.startswith(unit + "-") and old != unit + "-" + key:
                pth = os.path.join(WORK, "facts", old)
                try:
                    gens.append((os.path.getmtime(pth), pth))
                except OSError:
                    pass
        gens.sort(reverse=True)
        for mt, pth in gens[8:]:
            if time.time() - mt > 1200:
                shutil.rmtree(pth, ignore_errors=True)
        shutil.rmtree(d, ignore_errors=True)
        os.makedirs(d)
        with open(os.path.join(d, "build.log"), "w") as log:
            _run_unit(unit, d, log)
        open(os.path.join(d, "DONE"), "w").write(key)
        return d
    finally:
        fcntl.flock(lockf, fcntl.LOCK_UN)
        lockf.close()


# ---------------------------------------------------------------------------
# loading

class Crate:
    def __init__(self, path):
        with open(path) as fh:
            d = json.load(fh)
        self.path = path
        self.name = d["crate"]
        self.debug_assertions = d["debug_assertions"]
        self.test = d["test"]
        self.features = d["features"]
        self.src_files = d["src_files"]
        self.files = d["files"]
        self.mbs = d["mbs"]
        self.types = d["types"]
        self.items = {}
        self.item_list = d["items"]
        for it in d["items"]:
            # several impls can print alike; keep a list per id
            self.items.setdefault(it["id"], []).append(it)
        self.bodies = {}
        for b in d["bodies"]:
            self.bodies.setdefault(b["id"], []).append(b)

    def ty(self, i):
        return self.types[i]

    def tys(self, i):
        return self.types[i]["s"] if i is not None else "?"

    def tys_of(self, tdict):
        return tdict["s"]

    def loc(self, sp):
        if not sp:
            return "?"
        f = self.files[sp[0]]
        if f.startswith(REPO + "/"):
            f = f[len(REPO) + 1:]
        return "%s:%d" % (f, sp[1])

    def file_of(self, sp):
        return self.files[sp[0]] if sp else None

    def mb(self, node):
        i = node.get("mb")
        return self.mbs[i] if i is not None else []

    def macros(self, node):
        """Names of the macros a node was expanded from (innermost first), without kind prefix or `$crate::` path."""
        return [m.split(":", 1)[-1].rsplit("::", 1)[-1] for m in self.mb(node)]

    def src_loc(self, node):
        """Location in the source as written: the outermost call site for code from macro expansion."""
        return self.loc(node.get("cs") or node.get("sp"))

    def body(self, id_):
        bs = self.bodies.get(id_)
        if not bs:
            return None
        return bs[0]

    def item(self, id_):
        its = self.items.get(id_)
        return its[0] if its else None

    def fns(self):
        for it in self.item_list:
            if it["kind"] in ("Fn", "AssocFn"):
                yield it

    def impls(self):
        for it in self.item_list:
            if it["kind"].startswith("Impl"):
                yield it


class FactSet:
    """Facts of one or more units, addressed by crate key (crate name + tag)."""

    def __init__(self):
        self.crates = {}
        self.dirs = {}

    def add_unit(self, unit):
        d = ensure(unit)
        self.dirs[unit] = d
        for f in sorted(os.listdir(d)):
            if not f.endswith(".json"):
                continue
            # <crate><tag>.<lib|test>.<pid>.json
            stem = f[:-5]
            parts = stem.rsplit(".", 2)
            key = parts[0] if parts[1] == "lib" else parts[0] + ":" + parts[1]
            if key in self.crates:
                # same crate built by two units (e.g. pest): keep first
                continue
            self.crates[key] = Crate(os.path.join(d, f))
        return self

    def __getitem__(self, k):
        if k not in self.crates:
            raise KeyError("no facts for crate %r (have %s)" % (k, sorted(self.crates)))
        return self.crates[k]

    def get(self, k):
        return self.crates.get(k)


def load(*units):
    for attempt in (0, 1):
        fs = FactSet()
        try:
            for u in units:
                fs.add_unit(u)
            return fs
        except FileNotFoundError:
            # a generation vanished while being read (evicted by a concurrent run): rebuild once
            if attempt:
                raise
            for u in units:
                d = os.path.join(WORK, "facts", u + "-" + tree_key(u))
                lockf = open(os.path.join(WORK, "facts", ".lock-" + u), "w")
                fcntl.flock(lockf, fcntl.LOCK_EX)
                try:
                    names = os.listdir(d) if os.path.isdir(d) else []
                    want = [n for n in names if n.endswith(".json")]
                    if not names or not os.path.isfile(os.path.join(d, "DONE")) or not want:
                        shutil.rmtree(d, ignore_errors=True)
                finally:
                    fcntl.flock(lockf, fcntl.LOCK_UN)
                    lockf.close()
            time.sleep(1)


if __name__ == "__main__":
    for u in sys.argv[1:]:
        t0 = time.time()
        print(u, ensure(u), "%.1fs" % (time.time() - t0))
