"""Reading `format_args!` back from its HIR lowering (this nightly: `Arguments::new(<template bytes>, &args)` with the values in
a tuple and one `Argument::new_<trait>` per value; a template without placeholders is a plain string literal)."""
from .hir import walk, strip_generics


def decode_template(hexs):
    """Pieces of a lowered template: str for literal text, int index for a default placeholder; None if a placeholder carries
    options this decoder does not know."""
    try:
        bs = bytes.fromhex(hexs)
    except ValueError:
        return None
    out = []
    i = 0
    nxt = 0
    while i < len(bs):
        b = bs[i]
        if b == 0:
            return out
        if b < 0x80:
            out.append(bs[i + 1:i + 1 + b].decode("utf-8", "replace"))
            i += 1 + b
        elif b == 0xC0:
            out.append(nxt)
            nxt += 1
            i += 1
        else:
            return None
    return out


def pieces(node):
    """[(text) | (trait, value expression node)] for the format_args! expansion found under `node`; None if it cannot be read."""
    tmpl = None
    values = None
    kinds = []
    for m in walk(node):
        if m["k"] == "lit" and "bytes" in (m.get("v") or {}):
            tmpl = m["v"]["bytes"]
        if m["k"] == "tuple" and values is None and m.get("mb") is not None:
            values = m["es"]
        if m["k"] == "call" and m.get("callee") and strip_generics(m["callee"]["path"]).startswith("core::fmt::rt::Argument::new_"):
            idx = m["args"][0]
            while idx["k"] in ("addr_of", "use", "cast"):
                idx = idx["e"]
            kinds.append((strip_generics(m["callee"]["path"]).rsplit("new_", 1)[-1], int(idx["name"]) if idx["k"] == "field" else None))
    if tmpl is None:
        for m in walk(node):
            if m["k"] == "lit" and "str" in (m.get("v") or {}):
                return [m["v"]["str"]]
        return None
    dec = decode_template(tmpl)
    if dec is None:
        return None
    out = []
    for piece in dec:
        if isinstance(piece, str):
            out.append(piece)
        else:
            if piece >= len(kinds) or values is None or kinds[piece][1] is None or kinds[piece][1] >= len(values):
                return None
            out.append((kinds[piece][0], values[kinds[piece][1]]))
    return out
