#!/bin/sh
# Build the ptfacts driver (nightly, rustc_private, zero dependencies). Offline.
set -e
cd "$(dirname "$0")/ptfacts"
CARGO_NET_OFFLINE=true cargo build --offline --release
