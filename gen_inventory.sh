#!/bin/sh
# Regenerates DESIGN.md §14 (rule inventory) from the quick checks' own output on /repo.
cd "$(dirname "$0")"
for p in C01 C02 C03 C04 C05 C06 C07 C08 C09 C10 C11 C12 C13 C14 C15 C16 C17 C18 C19 C20; do ./check $p > .work/inv_$p.log 2>&1; done
python3 - <<'PY'
import re,glob
rows=[]
for f in sorted(glob.glob('.work/inv_C??.log')):
    for l in open(f):
        m=re.match(r"\[(C\d\d)\] (\S+)\s+(\d+) instances \((\d+) distinct\)(?: floor (\d+))?  (.*)", l)
        if m: rows.append((m.group(1), m.group(2), int(m.group(3)), m.group(5) or "-", m.group(6).strip()))
out=["## 14. Rule inventory on the pinned tree (generated from the checks' own output)\n",
     "One line per registered rule: instances evaluated today, the floor below which the rule fails closed, and the rule's statement.",
     "Rules whose id carries another property's stem in their text (\"C0x's instances\") are adoptions: the same instances decided under this property too.\n",
     "| property | rule | instances | floor | statement |", "|---|---|---|---|---|"]
for r in rows:
    out.append("| %s | %s | %d | %s | %s |" % (r[0], r[1], r[2], r[3], r[4].replace("|","\\|")[:260]))
s=open('DESIGN.md').read()
if "## 14. Rule inventory" in s: s=s[:s.index("## 14. Rule inventory")]
open('DESIGN.md','w').write(s.rstrip()+"\n\n"+"\n".join(out)+"\n")
print(len(rows),"rules")
PY
