use pest_typed::{predefined_node::Skip, AsInput, Input, Span, Stack, StringArrayWrapper, TypedNode, tracker::Tracker};
#[derive(Clone, PartialEq)]
struct XY;
impl StringArrayWrapper for XY { const CONTENT: &'static [&'static str] = &["XY"]; }
#[derive(Clone, Copy, Debug, Eq, Hash, Ord, PartialEq, PartialOrd)]
enum Rule { EOI }
fn run<'i>(inp: impl AsInput<'i>) -> usize {
    let input = inp.as_input();
    let mut stack = Stack::new();
    let mut tracker = Tracker::<Rule>::new(input);
    let out = <Skip<'i, XY> as TypedNode<'i, Rule>>::try_check_partial_with(input, &mut stack, &mut tracker).unwrap();
    out.byte_offset()
}
fn main() {
    let parent = "abXY";
    let sub = Span::new(parent, 0, 3).unwrap();       // "abX"
    let own = String::from("abX");
    let a = run(sub);
    let b = run(own.as_str());
    println!("span(abXY,0,3) stops at {a}; fresh \"abX\" stops at {b}");
    assert_eq!(a, b, "sub-input result differs from parsing the slice on its own");
}
