use pest_typed::{Position, Span};
fn main() {
    let p = Position::new("ab\ncd", 5).unwrap();
    println!("Position at end of input displays {:?}", format!("{}", p));
    let p0 = Position::new("ab\ncd", 4).unwrap();
    println!("Position before last char displays {:?}", format!("{}", p0));
    let pe = Position::new("", 0).unwrap();
    println!("Position in empty input displays {:?}", format!("{}", pe));
    let s2 = Span::new("ab", 2, 2).unwrap();
    println!("empty span at end displays {:?}", format!("{}", s2));
    let r = std::panic::catch_unwind(|| { let s = Span::new("", 0, 0).unwrap(); format!("{}", s) });
    println!("Span over empty input: {:?}", r.map_err(|_| "PANIC"));
    _select();
}
// (added for R14-SELECT) a span that starts exactly at the start of a line other than the first
fn _select() {
    let s = Span::new("ab\ncd", 3, 5).unwrap();
    println!("span `cd` of \"ab\\ncd\" displays:\n{}", s);
}
