#!/bin/sh
# Applies each benign (behaviour-preserving) patch to a scratch worktree and runs every claimed check against it
# (PT_REPO points the machinery at the scratch tree). Every check must stay silent (rc=0).
WT=${1:-/tmp/wt_self}
cd /repo && (git worktree list | grep -q "$WT" || git worktree add -q --detach "$WT" HEAD)
PROPS="C01 C02 C03 C04 C05 C06 C07 C08 C09 C10 C11 C12 C13 C14 C15 C16 C17 C18 C19 C20"
fail=0
SH_K=${SHARD%%/*}; SH_N=${SHARD##*/}; [ -z "$SHARD" ] && { SH_K=0; SH_N=1; }; idx=0
# run from a snapshot of /verif's code (sharing .work and the driver), so that editing /verif meanwhile does not disturb the run
SNAP=$(mktemp -d /tmp/verif_snap.XXXXXX)
rsync -a --exclude .work --exclude .git --exclude ptfacts --exclude out --exclude evidence /verif/ "$SNAP"/
ln -s /verif/.work "$SNAP/.work"; ln -s /verif/ptfacts "$SNAP/ptfacts"
for p in /verif/selftest/benign/*.patch; do
  idx=$((idx+1)); [ $((idx % SH_N)) -ne $SH_K ] && continue
  (cd "$WT" && git checkout -q -- . && git apply "$p") || { echo "APPLY-FAIL $p"; continue; }
  for prop in $PROPS; do
    out=$(cd "$SNAP" && PT_REPO="$WT" ./check $prop 2>&1); rc=$?
    if [ $rc -ne 0 ]; then
      # alarms that are by design (an edit of the operand of a reviewed panic-capable site needs re-review) are listed,
      # one fixed substring per line, in <patch>.expect; anything else is a false alarm
      exp="${p%.patch}.expect"
      lines=$(echo "$out" | grep -E "^  [RBI]")
      if [ -f "$exp" ]; then rest=$(echo "$lines" | grep -v -F -f "$exp"); else rest="$lines"; fi
      if [ -n "$rest" ]; then fail=1; echo "FALSE-ALARM $(basename $p) $prop"; echo "$rest" | cut -c1-260 | head -4;
      else echo "by-design alarm $(basename $p) $prop: $(echo "$lines" | head -1 | cut -c1-160)"; fi
    fi
  done
  echo "done $(basename $p)"
done
(cd "$WT" && git checkout -q -- .)
rm -rf "$SNAP"
exit $fail
