#!/bin/sh
# usage: run_all_par.sh [lanes]  — the three regressions (seeds, own mutations, benign patches) in parallel lanes, each lane with its
# own scratch worktree of /repo (SHARD=k/N selects every N-th item). Logs: /tmp/par_{seeds,mut,benign}.<k>.log; summary at the end.
N=${1:-4}
for k in $(seq 0 $((N-1))); do
  git -C /repo worktree list | grep -q "/tmp/wt_par$k " || git -C /repo worktree add -q --detach /tmp/wt_par$k HEAD
done
for k in $(seq 0 $((N-1))); do
  ( SHARD=$k/$N /verif/selftest/run_all_seeds.sh /tmp/wt_par$k > /tmp/par_seeds.$k.log 2>&1
    SHARD=$k/$N /verif/selftest/run_all_mut.sh /tmp/wt_par$k > /tmp/par_mut.$k.log 2>&1
    SHARD=$k/$N /verif/selftest/run_benign.sh /tmp/wt_par$k > /tmp/par_benign.$k.log 2>&1 ) &
done
wait
for k in $(seq 0 $((N-1))); do git -C /repo worktree remove --force /tmp/wt_par$k; done
echo "seeds ok: $(cat /tmp/par_seeds.*.log | grep -c '^ok')  not ok: $(cat /tmp/par_seeds.*.log | grep -c 'MISSED\|APPLY-FAIL')"
echo "mut ok: $(cat /tmp/par_mut.*.log | grep -c '^ok')  not ok: $(cat /tmp/par_mut.*.log | grep -c 'UNEXPECTED\|APPLY-FAIL')"
echo "benign done: $(cat /tmp/par_benign.*.log | grep -c '^done')  false alarms: $(cat /tmp/par_benign.*.log | grep -c 'FALSE-ALARM\|APPLY-FAIL')  by design: $(cat /tmp/par_benign.*.log | grep -c 'by-design')"
