#!/bin/sh
# usage: run_mut.sh <patch> <prop>...   — apply a patch to /repo, run checks, always revert.
p="$(realpath "$1")"; shift
cd /repo || exit 2
git diff --quiet || { echo "/repo is dirty; refusing"; exit 2; }
git apply "$p" || { echo "patch does not apply: $p"; exit 2; }
trap 'cd /repo && git checkout -- . ' EXIT INT TERM
cd /verif
for prop in "$@"; do
  out=$(./check "$prop" 2>&1); rc=$?
  echo "--- $(basename $p) $prop rc=$rc"
  echo "$out" | grep -E "VIOLATION|^  R|KNOWN" | cut -c1-300 | head -${MUT_LINES:-6}
done
