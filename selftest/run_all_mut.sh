#!/bin/sh
# Regression over my own mutations: applies each selftest/mut/cNN_*.patch to a scratch worktree and runs check CNN against it
# (PT_REPO points the machinery at the scratch tree). Each must be reported (rc=1); benign_* patches must stay silent.
WT=${1:-/tmp/wt_mut}
cd /repo && (git worktree list | grep -q "$WT" || git worktree add -q --detach "$WT" HEAD)
fail=0
SH_K=${SHARD%%/*}; SH_N=${SHARD##*/}; [ -z "$SHARD" ] && { SH_K=0; SH_N=1; }; idx=0
# run from a snapshot of /verif's code (sharing .work and the driver), so that editing /verif meanwhile does not disturb the run
SNAP=$(mktemp -d /tmp/verif_snap.XXXXXX)
rsync -a --exclude .work --exclude .git --exclude ptfacts --exclude out --exclude evidence /verif/ "$SNAP"/
ln -s /verif/.work "$SNAP/.work"; ln -s /verif/ptfacts "$SNAP/ptfacts"
for p in /verif/selftest/mut/*.patch; do
  idx=$((idx+1)); [ $((idx % SH_N)) -ne $SH_K ] && continue
  b=$(basename "$p" .patch)
  (cd "$WT" && git checkout -q -- . && git clean -fdq -e target && git apply "$p") || { echo "APPLY-FAIL $b"; fail=1; continue; }
  case "$b" in
    benign_c[0-9][0-9]_*) want=0; props=$(echo "$b" | cut -c8-10 | tr c C);;
    benign_*) want=0; props="C01 C03 C05 C17 C19";;
    *) want=1; props=$(echo "$b" | cut -c1-3 | tr c C);;
  esac
  for prop in $props; do
    out=$(cd "$SNAP" && PT_REPO="$WT" ./check $prop 2>&1); rc=$?
    if [ $rc -ne $want ]; then fail=1; echo "UNEXPECTED $b $prop rc=$rc (want $want)"; echo "$out" | grep -E "^  [RBI]" | cut -c1-220 | head -3
    else echo "ok $b $prop rc=$rc $(echo "$out" | grep -E "^  [RBI]" | head -1 | cut -c1-140)"; fi
  done
done
(cd "$WT" && git checkout -q -- .)
rm -rf "$SNAP"
exit $fail
