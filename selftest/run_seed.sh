#!/bin/sh
# usage: run_seed.sh <seed id> <prop>...  — applies seeded/<id>/patch.diff to /repo, runs the checks, reverts.
d="/verif/seeded/$1"; shift
exec /verif/selftest/run_mut.sh "$d/patch.diff" "$@"
