#!/bin/sh
# Regression over the seeded changes: applies each seeded/<id>/patch.diff to a scratch worktree and runs the check of the
# property it was seeded under (PT_REPO points the machinery at the scratch tree). Each must be reported (rc=1).
WT=${1:-/tmp/wt_seeds}
cd /repo && (git worktree list | grep -q "$WT" || git worktree add -q --detach "$WT" HEAD)
fail=0
for d in /verif/seeded/*/; do
  id=$(basename "$d"); prop=${id%%-*}
  (cd "$WT" && git checkout -q -- . && git clean -fdq -e target && git apply "$d/patch.diff") || { echo "APPLY-FAIL $id"; fail=1; continue; }
  out=$(cd /verif && PT_REPO="$WT" ./check $prop 2>&1); rc=$?
  if [ $rc -ne 1 ]; then fail=1; echo "MISSED $id by $prop rc=$rc"; else echo "ok $id $prop $(echo "$out" | grep -E "^  [RBI]" | head -1 | cut -c1-150)"; fi
done
(cd "$WT" && git checkout -q -- .)
exit $fail
