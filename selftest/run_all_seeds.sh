#!/bin/sh
# Regression over the seeded changes: applies each seeded/<id>/patch.diff to a scratch worktree and runs the check of the
# property it was seeded under (PT_REPO points the machinery at the scratch tree). Each must be reported (rc=1).
WT=${1:-/tmp/wt_seeds}
cd /repo && (git worktree list | grep -q "$WT" || git worktree add -q --detach "$WT" HEAD)
fail=0
SH_K=${SHARD%%/*}; SH_N=${SHARD##*/}; [ -z "$SHARD" ] && { SH_K=0; SH_N=1; }; idx=0
# run from a snapshot of /verif's code (sharing .work and the driver), so that editing /verif meanwhile does not disturb the run
SNAP=$(mktemp -d /tmp/verif_snap.XXXXXX)
rsync -a --exclude .work --exclude .git --exclude ptfacts --exclude out --exclude evidence /verif/ "$SNAP"/
ln -s /verif/.work "$SNAP/.work"; ln -s /verif/ptfacts "$SNAP/ptfacts"
for d in /verif/seeded/*/; do
  idx=$((idx+1)); [ $((idx % SH_N)) -ne $SH_K ] && continue
  id=$(basename "$d"); prop=${id%%-*}
  (cd "$WT" && git checkout -q -- . && git clean -fdq -e target && git apply "$d/patch.diff") || { echo "APPLY-FAIL $id"; fail=1; continue; }
  out=$(cd "$SNAP" && PT_REPO="$WT" ./check $prop 2>&1); rc=$?
  if [ $rc -ne 1 ]; then fail=1; echo "MISSED $id by $prop rc=$rc"; else echo "ok $id $prop $(echo "$out" | grep -E "^  [RBI]" | head -1 | cut -c1-150)"; fi
done
(cd "$WT" && git checkout -q -- .)
rm -rf "$SNAP"
exit $fail
