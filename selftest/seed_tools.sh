# source me:  . selftest/seed_tools.sh
save_seed(){ _sid=$1; _wt=$2; mkdir -p /verif/seeded/$_sid; (cd $_wt && git diff -- main generator derive > /verif/seeded/$_sid/patch.diff; for f in $(git status --short | grep '^??' | awk '{print $2}' | grep -v '^target'); do [ -f "$f" ] && cp $f /verif/seeded/$_sid/demo_$(basename $f); done); wc -l /verif/seeded/$_sid/patch.diff; ls /verif/seeded/$_sid; }
# verify_seed <seed id> <demo path inside repo> <package> [extra cargo flags]: fresh worktree, demo with/without patch, suite with patch
verify_seed(){ _sid=$1; _demo=${2:-derive/tests/seeded_demo.rs}; _pkg=${3:-pest_typed_derive}; _fl=$4; _t=$(basename $_demo .rs); _wt=/tmp/wtv_$_sid;
  git -C /repo worktree add -q --detach $_wt HEAD || return 1;
  cp /verif/seeded/$_sid/demo_$(basename $_demo) $_wt/$_demo;
  ( cd $_wt; echo "-- without change:"; CARGO_NET_OFFLINE=true cargo test -p $_pkg --test $_t --offline $_fl 2>&1 | grep -E "test result";
    git apply /verif/seeded/$_sid/patch.diff; echo "-- with change:"; CARGO_NET_OFFLINE=true cargo test -p $_pkg --test $_t --offline $_fl 2>&1 | grep -E "test result";
    rm $_demo; echo "-- existing suite with change (non-ok result lines):"; CARGO_NET_OFFLINE=true cargo test --workspace --no-fail-fast --offline 2>&1 | grep -E "^test result|^error" | grep -v "ok\." );
  git -C /repo worktree remove --force $_wt; }
# process_seed <seed id> <agent worktree> [demo path] [package] [cargo flags]: save, remove the agent's worktree, verify in a
# fresh one, then run the check of the seed's own property against it (on /repo, reverted afterwards)
process_seed(){ _psid=$1; _pwt=$2; shift 2; save_seed $_psid $_pwt >/dev/null; git -C /repo worktree remove --force $_pwt;
  echo "== $_psid"; verify_seed $_psid "$@"; /verif/selftest/run_seed.sh $_psid ${_psid%%-*} 2>&1 | grep -E "^  [RBI]|rc=" | cut -c1-260 | head -6; }
