import sys, subprocess, shutil, os
F="main/src/iterators.rs"
M={
"pre_depth_len": [(F,"f(&first, stack.len() - 1)?;","f(&first, stack.len())?;")],
"pre_pop_back": [(F,"if let Some(first) = parent.pop_front() {","if let Some(first) = parent.pop_back() {")],
"pre_first_mut": [(F,"if let Some(parent) = stack.last_mut() {","if let Some(parent) = stack.first_mut() {")],
"pre_children_rev": [(F,"stack.push(first.children.into());","stack.push(first.children.into_iter().rev().collect());")],
"pre_skip_leaf_push_then_pop": [(F,"stack.push(first.children.into());","stack.push(first.children.into());\n                if stack.len() > 64 { stack.pop(); }")],
"pre_double_call": [(F,"f(&first, stack.len() - 1)?;\n","f(&first, stack.len() - 1)?;\n                if first.children.len() == 1 { f(&first, stack.len() - 1)?; }\n")],
"pre_drop_single_children": [(F,"stack.push(first.children.into());","if first.children.len() != 1 { stack.push(first.children.into()); }")],
"lvl_pop_back": [(F,"while let Some(p) = queue.pop_front() {","while let Some(p) = queue.pop_back() {")],
"lvl_exit_next": [(F,"swap(&mut queue, &mut next);\n        if queue.is_empty() {","swap(&mut queue, &mut next);\n        if next.is_empty() {")],
"lvl_extend_rev": [(F,"next.extend(p.children);","next.extend(p.children.into_iter().rev());")],
"lvl_push_front": [(F,"next.extend(p.children);","for c in p.children { next.push_front(c); }")],
"lvl_swap_inside": [(F,"next.extend(p.children);","next.extend(p.children);\n            swap(&mut queue, &mut next);")],
"lvl_no_children_when_deep": [(F,"next.extend(p.children);","if queue.len() < 8 { next.extend(p.children); }")],
"lvl_seed_twice": [(F,"queue.push_back(p.as_token());","queue.push_back(p.as_token());\n    next.push_back(p.as_token());")],
"thin_end_start": [(F,"let end = self.span.end();","let end = self.span.start();")],
"thin_children_rev": [(F,"self.children.iter().map(|c| c.to_thin()).collect();","self.children.iter().rev().map(|c| c.to_thin()).collect();")],
"thin_children_skip": [(F,"self.children.iter().map(|c| c.to_thin()).collect();","self.children.iter().skip(1).map(|c| c.to_thin()).collect();")],
"token_children_empty": [(F,"let children = self.children();\n        Token::<R> {","let children = Vec::new();\n        Token::<R> {")],
"children_insert0": [(F,"self.for_each_child(|token| children.push(token));","self.for_each_child(|token| children.insert(0, token));")],
"children_dedup": [(F,"self.for_each_child(|token| children.push(token));\n        children","self.for_each_child(|token| children.push(token));\n        children.dedup();\n        children")],
"render_two_spaces": [(F,'&"    ".repeat(depth),\n                p.rule,\n                p.span.as_str(),','&"  ".repeat(depth),\n                p.rule,\n                p.span.as_str(),')],
"render_leaf_neg": [(F,"if p.children.is_empty() {","if !p.children.is_empty() {")],
"render_no_space": [(F,'"{}{:?} {:?}\\n",','"{}{:?}{:?}\\n",')],
"render_display_text": [(F,'"{}{:?} {:?}\\n",','"{}{:?} {}\\n",')],
"render_depth_plus": [(F,'buf.write_fmt(format_args!("{}{:?}\\n", &"    ".repeat(depth), p.rule))','buf.write_fmt(format_args!("{}{:?}\\n", &"    ".repeat(depth + 1), p.rule))')],
"deleg_swapped": [(F,"    ) -> Result<(), E> {\n        iterate_level_order(self, f)","    ) -> Result<(), E> {\n        iterate_pre_order(self, f)")],
"format_swallow": [(F,"self.write_tree_to(&mut buf)?;","let _ = self.write_tree_to(&mut buf);")],
"pre_no_pop": [(F,"            } else {\n                stack.pop();\n            }","            }")],
"lvl_break_early": [(F,"next.extend(p.children);","next.extend(p.children);\n            if next.len() > 1024 { break; }")],
# benign
"B_pre_skip_empty": [(F,"stack.push(first.children.into());","if !first.children.is_empty() {\n                    stack.push(first.children.into());\n                }")],
"B_lvl_skip_empty": [(F,"next.extend(p.children);","if !p.children.is_empty() { next.extend(p.children); }")],
"B_pre_match": [(F,"""            if let Some(first) = parent.pop_front() {
                f(&first, stack.len() - 1)?;
                stack.push(first.children.into());
            } else {
                stack.pop();
            }""","""            match parent.pop_front() {
                Some(first) => {
                    f(&first, stack.len() - 1)?;
                    stack.push(first.children.into());
                }
                None => {
                    stack.pop();
                }
            }""")],
"B_pre_while": [(F,"""    loop {
        if let Some(parent) = stack.last_mut() {
            if let Some(first) = parent.pop_front() {
                f(&first, stack.len() - 1)?;
                stack.push(first.children.into());
            } else {
                stack.pop();
            }
        } else {
            return Ok(());
        }
    }""","""    while let Some(parent) = stack.last_mut() {
        if let Some(first) = parent.pop_front() {
            let depth = stack.len() - 1;
            f(&first, depth)?;
            stack.push(VecDeque::from(first.children));
        } else {
            stack.pop();
        }
    }
    Ok(())""")],
"B_lvl_exit_first": [(F,"""        swap(&mut queue, &mut next);
        if queue.is_empty() {
            return Ok(());
        }""","""        if next.is_empty() {
            return Ok(());
        }
        swap(&mut queue, &mut next);""")],
"B_lvl_single_queue_style": [(F,"""    loop {
        while let Some(p) = queue.pop_front() {
            f(&p, queue.len())?;
            next.extend(p.children);
        }
        swap(&mut queue, &mut next);
        if queue.is_empty() {
            return Ok(());
        }
    }""","""    while !queue.is_empty() {
        while let Some(p) = queue.pop_front() {
            f(&p, queue.len())?;
            next.extend(p.children);
        }
        swap(&mut queue, &mut next);
    }
    Ok(())""")],
"B_thin_direct": [(F,"""        let rule = self.rule;
        let start = self.span.start();
        let end = self.span.end();
        let children = self.children.iter().map(|c| c.to_thin()).collect();
        ThinToken {
            rule,
            start,
            end,
            children,
        }""","""        ThinToken {
            rule: self.rule,
            start: self.span.start(),
            end: self.span.end(),
            children: self.children.iter().map(Self::to_thin).collect(),
        }""")],
"B_render_write_macro": [(F,"""            buf.write_fmt(format_args!("{}{:?}\\n", &"    ".repeat(depth), p.rule))""","""            writeln!(buf, "{}{:?}", "    ".repeat(depth), p.rule)""")],
"B_render_split": [(F,"""        if p.children.is_empty() {
            buf.write_fmt(format_args!(
                "{}{:?} {:?}\\n",
                &"    ".repeat(depth),
                p.rule,
                p.span.as_str(),
            ))
        } else {
            buf.write_fmt(format_args!("{}{:?}\\n", &"    ".repeat(depth), p.rule))
        }""","""        write!(buf, "{}{:?}", "    ".repeat(depth), p.rule)?;
        if p.children.is_empty() {
            write!(buf, " {:?}", p.span.as_str())?;
        }
        buf.write_char('\\n')""")],
}
names = sys.argv[1:] or list(M)
# Self-test of the C15 rules, both ways: every mutation must be reported (rc=1), every `B_` rewrite must be silent (rc=0).
# Works on a scratch copy of /repo under a temp dir (removed at the end); PT_REPO points the machinery at it.
import tempfile
W = tempfile.mkdtemp(prefix="c15m.")
subprocess.run(["rsync", "-a", "--exclude", "target", "--exclude", ".git", "/repo/", W + "/base/"], check=True)
fail = 0
for name in names:
    shutil.rmtree(W + "/t", ignore_errors=True); shutil.copytree(W + "/base", W + "/t")
    ok = True
    for f, old, new in M[name]:
        p = W + "/t/" + f; s = open(p).read()
        if s.count(old) != 1: print("MUT-FAIL", name, s.count(old)); ok = False; fail = 1; break
        open(p, "w").write(s.replace(old, new))
    if not ok: continue
    env = dict(os.environ, CARGO_TARGET_DIR=W + "/target", CARGO_NET_OFFLINE="true")
    r = subprocess.run("cargo check --offline -q -p pest_typed 2>&1 | grep -E '^error' | head -3", shell=True, cwd=W + "/t", env=env, capture_output=True, text=True)
    if r.stdout.strip(): print("COMPILE-FAIL", name, r.stdout.strip()[:300]); fail = 1; continue
    env = dict(os.environ, PT_REPO=W + "/t")
    r = subprocess.run("./check C15", shell=True, cwd=os.path.dirname(os.path.dirname(os.path.abspath(__file__))), env=env, capture_output=True, text=True)
    lines = [l[:300] for l in r.stdout.splitlines() if l.startswith("  R15") or l.startswith("  I") or "Traceback" in l]
    want = 0 if name.startswith("B_") else 1
    if r.returncode != want: fail = 1
    print("%s %-30s rc=%d %s" % ("ok  " if r.returncode == want else "BAD ", name, r.returncode, ("\n     " + "\n     ".join(lines)) if lines else ""), flush=True)
shutil.rmtree(W, ignore_errors=True)
sys.exit(fail)
