import sys, json, glob
OLD, NEW = int(sys.argv[1]), int(sys.argv[2])   # usage: migrate_keys.py <old scheme> <new scheme> — rewrites tables/discharge_*.json keys computed on the unchanged tree
sys.path.insert(0,'/verif')
from ptlint import facts, inv
m={}
for unit in ('core','rel'):
    fs=facts.load(unit)
    for cn,c in fs.crates.items():
        g=inv.CallGraph([c])
        bodies = g.bodies if g else {}
        for fid,b in bodies.items():
            kinds={"panic","usub","div","debug","unsafe"}
            inv._SCHEME=OLD
            old=inv.keyed(list(inv.sites(c,fid,b,kinds)),fid)
            inv._SCHEME=NEW
            new=inv.keyed(list(inv.sites(c,fid,b,kinds)),fid)
            assert len(old)==len(new) and all(o['loc']==n['loc'] and o['kind']==n['kind'] for o,n in zip(old,new)),fid
            for o,n in zip(old,new):
                if o['key'] in m and m[o['key']]!=n['key']:
                    print('CONFLICT',o['key'],m[o['key']],n['key'])
                m[o['key']]=n['key']
print(len(m),'sites;',sum(1 for k,v in m.items() if k!=v),'changed')
for t in glob.glob('/verif/tables/discharge_*.json'):
    d=json.load(open(t)); ch=0; miss=0
    for e in d['entries']:
        if e['key'] in m:
            if m[e['key']]!=e['key']: ch+=1
            e['key']=m[e['key']]
        else:
            miss+=1; print('MISSING',t,e['key'][:150])
    json.dump(d,open(t,'w'),indent=1); print(t,len(d['entries']),'entries',ch,'changed',miss,'missing')
