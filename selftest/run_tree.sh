#!/bin/sh
# usage: run_tree.sh <scratch worktree> [props...] — run the checks against a scratch tree (PT_REPO) and list every alarm.
# The checks run from a snapshot of /verif's code (sharing .work and the driver), so editing /verif meanwhile does not disturb them.
WT="$1"; shift
PROPS=${@:-C01 C02 C03 C04 C05 C06 C07 C08 C09 C10 C11 C12 C13 C14 C15 C16 C17 C18 C19 C20}
SNAP=$(mktemp -d /tmp/verif_snap.XXXXXX)
rsync -a --exclude .work --exclude .git --exclude ptfacts --exclude out --exclude evidence /verif/ "$SNAP"/
ln -s /verif/.work "$SNAP/.work"; ln -s /verif/ptfacts "$SNAP/ptfacts"
for prop in $PROPS; do
  out=$(cd "$SNAP" && PT_REPO="$WT" ./check $prop 2>&1); rc=$?
  if [ $rc -ne 0 ]; then echo "ALARM $prop"; echo "$out" | grep -E "^  [RBI]" | cut -c1-${COLS:-300} | head -${LINES_MAX:-6}; fi
done
rm -rf "$SNAP"
echo "done $WT"
