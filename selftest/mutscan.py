#!/usr/bin/env python3
"""Mutation scan of the *checkers* (not a registered check; nothing here decides a property).

Generates small token-level mutants of /repo's non-test sources, and for each one that still compiles asks:
  1. does any of the 20 static checks report it (PT_REPO = the mutated scratch copy)?      -> detected
  2. if none does: does the repository's own test suite still pass?                        -> SURVIVOR (to be triaged by hand:
     either an equivalent mutant, or a behaviour change no check sees — the interesting case), else killed-by-tests.

usage: mutscan.py <lanes> <n mutants> [seed] [path filter regex]
Scratch copies live under /tmp/ms (removed at the end); results in /tmp/ms_results.jsonl, survivors' patches in /tmp/ms_survivors/.
"""
import json
import os
import random
import re
import shutil
import subprocess
import sys
import threading
import time

REPO = "/repo"
VERIF = os.path.dirname(os.path.dirname(os.path.abspath(__file__)))
ROOT = "/tmp/ms"
CHECK_ORDER = ["C01", "C09", "C20", "C12", "C13", "C14", "C10", "C02", "C15", "C16", "C17", "C18", "C08", "C04", "C11", "C03", "C05", "C06", "C07", "C19"]

OPS = [
    (r" <= ", " < "), (r" < ", " <= "), (r" >= ", " > "), (r" > ", " >= "), (r" == ", " != "), (r" != ", " == "),
    (r" && ", " || "), (r" \|\| ", " && "),
    (r" \+ 1\b", ""), (r" \+ 1\b", " + 2"), (r" - 1\b", ""), (r" \+= ", " -= "),
    (r"\btrue\b", "false"), (r"\bfalse\b", "true"),
    (r"\.start\(\)", ".end()"), (r"\.end\(\)", ".start()"), (r"\bmin\(", "max("), (r"\bmax\(", "min("),
    (r"pop_front", "pop_back"), (r"\.restore\(\)", ".clear_snapshot()"), (r"\.clear_snapshot\(\)", ".restore()"),
    (r"\b0\.\.", "1.."), (r"\.\.=", ".."), (r"\bif !", "if "), (r"\.is_some\(\)", ".is_none()"), (r"\.is_none\(\)", ".is_some()"),
    (r"\.is_empty\(\)", ".len() == 1"), (r"<'i, 0>", "<'i, 1>"), (r"<'i, 1>", "<'i, 0>"), (r"Some\(true\)", "Some(false)"), (r"Some\(false\)", "Some(true)"),
    (r"\.first\(\)", ".last()"), (r"\.last\(\)", ".first()"), (r"\.rev\(\)", ""), (r"len_utf8", "len_utf16"), (r"\bi < MIN\b", "i <= MIN"),
    (r"Emission::Both", "Emission::Span"), (r"Emission::Expression", "Emission::Both"), (r"\.skipped\b", ".matched"), (r"\bcontent\.0\b", "content.1"),
    (r"at_start\(\)", "at_end()"), (r"at_end\(\)", "at_start()"), (r"\bsnapshot\(\);", "snapshot(); stack.snapshot();"),
    # statement deletion (a call statement or a plain assignment), swapped simple arguments, dropped `?`
    (r"^\s*[a-z_][\w.]*\([^;]*\);\s*$", ""), (r"^\s*[a-z_][\w.]* = [a-z_]\w*;\s*$", ""),
    (r"\((\w+), (\w+)\)", r"(\2, \1)"), (r"\((\w+), (\w+), (\w+)\)", r"(\1, \3, \2)"),
    (r"#(\w+), #(\w+)", r"#\2, #\1"), (r"\bT(\d), _(\d)\b", r"T\1, _0"), (r"\.(\d)\b", ".0"), (r"\b1\b", "2"), (r"\b0\b", "1"),
]


def candidates(path_filter=None):
    out = []
    for top in ("main/src", "generator/src", "derive/src"):
        for dp, dn, fn in os.walk(os.path.join(REPO, top)):
            for f in fn:
                if not f.endswith(".rs"):
                    continue
                rel = os.path.relpath(os.path.join(dp, f), REPO)
                if path_filter and not re.search(path_filter, rel):
                    continue
                lines = open(os.path.join(dp, f)).read().split("\n")
                in_test = False
                dead = False
                for i, ln in enumerate(lines):
                    if "#[cfg(test)]" in ln:
                        in_test = True       # test modules sit at the end of the files here
                    if "#[allow(dead_code" in ln or '#[cfg(feature = "memchr")]' in ln:
                        dead = True          # unused pest-derived helpers / code compiled only with a feature this crate does not have
                    if dead and ln.rstrip() == "    }":
                        dead = False
                        continue
                    st = ln.strip()
                    if dead:
                        continue
                    if in_test or st.startswith("//") or st.startswith("#[") or st.startswith("use ") or "debug_assert" in ln:
                        continue
                    code = ln.split("//")[0]
                    for k, (pat, rep) in enumerate(OPS):
                        for m in re.finditer(pat, code):
                            out.append((rel, i, m.start(), m.end(), m.expand(rep), k))
    return out


def sh(cmd, cwd, env=None, timeout=3600):
    e = dict(os.environ)
    e.update(env or {})
    p = subprocess.run(cmd, shell=True, cwd=cwd, env=e, stdout=subprocess.PIPE, stderr=subprocess.STDOUT, text=True, timeout=timeout)
    return p.returncode, p.stdout


def lane(k, queue, lock, results):
    base = os.path.join(ROOT, "lane%d" % k)
    tree = os.path.join(base, "t")
    os.makedirs(base, exist_ok=True)
    subprocess.run(["rsync", "-a", "--delete", "--exclude", "target", "--exclude", ".git", REPO + "/", tree + "/"], check=True)
    env = {"CARGO_TARGET_DIR": os.path.join(base, "target"), "CARGO_NET_OFFLINE": "true"}
    while True:
        with lock:
            if not queue:
                return
            mut = queue.pop()
        rel, li, a, b, rep, opk = mut
        src = os.path.join(REPO, rel)
        dst = os.path.join(tree, rel)
        lines = open(src).read().split("\n")
        old = lines[li]
        lines[li] = old[:a] + rep + old[b:]
        open(dst, "w").write("\n".join(lines))
        rec = {"file": rel, "line": li + 1, "old": old.strip(), "new": lines[li].strip(), "op": OPS[opk][0] + " -> " + rep}
        t0 = time.time()
        try:
            rc, out = sh("cargo check --offline -q -p pest_typed -p pest_typed_generator -p pest_typed_derive 2>&1 | grep -E '^error' | head -2", tree, env)
            if out.strip():
                rec["verdict"] = "no-compile"
            else:
                hit = None
                for prop in CHECK_ORDER:
                    rc, out = sh("./check %s" % prop, VERIF, {"PT_REPO": tree}, timeout=1800)
                    if rc != 0:
                        first = [l for l in out.splitlines() if l.startswith("  ")][:1]
                        hit = (prop, first[0].strip()[:160] if first else "rc=%d" % rc)
                        break
                if hit:
                    rec["verdict"] = "detected"
                    rec["by"] = hit[0]
                    rec["what"] = hit[1]
                else:
                    rc, out = sh("cargo test --workspace --no-fail-fast --offline 2>&1 | grep -E '^test result|^error' | grep -v 'ok\\.' | head -3", tree, env, timeout=3600)
                    if out.strip():
                        rec["verdict"] = "killed-by-tests"
                    else:
                        rec["verdict"] = "SURVIVOR"
                        os.makedirs("/tmp/ms_survivors", exist_ok=True)
                        rc, diff = sh("diff -u %s %s" % (src, dst), "/")
                        name = "%s_%d_%d.patch" % (rel.replace("/", "_"), li + 1, opk)
                        open(os.path.join("/tmp/ms_survivors", name), "w").write(diff.replace(src, "a/" + rel).replace(dst, "b/" + rel))
        except subprocess.TimeoutExpired:
            rec["verdict"] = "timeout"
        rec["secs"] = round(time.time() - t0)
        shutil.copy(src, dst)
        with lock:
            results.append(rec)
            with open("/tmp/ms_results.jsonl", "a") as fh:
                fh.write(json.dumps(rec) + "\n")
            print("%-16s %s:%d  %s  =>  %s   %s" % (rec["verdict"], rel, li + 1, rec["old"][:50], rec["new"][:50], rec.get("by", "")), flush=True)


def main():
    lanes = int(sys.argv[1]) if len(sys.argv) > 1 else 4
    n = int(sys.argv[2]) if len(sys.argv) > 2 else 40
    seed = int(sys.argv[3]) if len(sys.argv) > 3 else 1
    flt = sys.argv[4] if len(sys.argv) > 4 else None
    cands = candidates(flt)
    random.Random(seed).shuffle(cands)
    # spread over files: at most a few mutants per (file, operator)
    seen = {}
    pick = []
    for c in cands:
        key = (c[0], c[5])
        if seen.get(key, 0) >= 2:
            continue
        seen[key] = seen.get(key, 0) + 1
        pick.append(c)
        if len(pick) >= n:
            break
    print("%d candidate sites, %d picked" % (len(cands), len(pick)), flush=True)
    # run the checks from a snapshot of /verif's code (sharing .work and the driver), so that editing /verif meanwhile is harmless
    global VERIF
    snap = "/tmp/verif_snap.ms"
    shutil.rmtree(snap, ignore_errors=True)
    subprocess.run(["rsync", "-a", "--exclude", ".work", "--exclude", ".git", "--exclude", "ptfacts", "--exclude", "out", "--exclude", "evidence",
                    VERIF + "/", snap + "/"], check=True)
    os.symlink(os.path.join(VERIF, ".work"), os.path.join(snap, ".work"))
    os.symlink(os.path.join(VERIF, "ptfacts"), os.path.join(snap, "ptfacts"))
    VERIF = snap
    lock = threading.Lock()
    results = []
    queue = list(reversed(pick))
    th = [threading.Thread(target=lane, args=(k, queue, lock, results)) for k in range(lanes)]
    for t in th:
        t.start()
    for t in th:
        t.join()
    shutil.rmtree(ROOT, ignore_errors=True)
    shutil.rmtree(snap, ignore_errors=True)
    tally = {}
    for r in results:
        tally[r["verdict"]] = tally.get(r["verdict"], 0) + 1
    print("summary:", tally)


if __name__ == "__main__":
    main()
