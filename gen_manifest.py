#!/usr/bin/env python3
"""Regenerates MANIFEST.json from the table below (kept in one place so it stays valid)."""
import json

CHECKS = {
    "C01": dict(level="other", tech="operator classification of effect decision trees; class trees of derive output (types) vs operator expressions; built-in tables recovered from pest_generator's quote! templates",
                text="Structural clauses only: every TypedNode impl (640 functions) has the path invariants of exactly one PEG operator class "
                     "(sequence, ordered choice, optional, greedy repetition, predicates, push, terminals) or is a reviewed stack node; match_range "
                     "tests a closed interval; for one rule per pest operator form (optimizer on and off, counted repetitions) the type rustc "
                     "assigned to the derive output maps to the class tree of the operator expression with children in grammar order; every "
                     "ASCII built-in has exactly the intervals of pest_generator's own table and NEWLINE the same strings in a prefix-consistent "
                     "order; every pest Unicode property has a node testing the predicate of the same name. Acceptance/offsets on inputs are not decided. Also: the check twin of every node equals its parse twin (atomic rules and predicates recognise through check twins); Input::next consumes exactly the character it returns.",
                note="pest_generator's table and PEG semantics of pest's operators (fixture expectations) are the oracle; pest's optimizer and Stack are trusted (known Stack defect listed in evidence).",
                ref="§4 C01"),
    "C02": dict(level="other", tech="typed-HIR walk of every Pairs/Pair impl: ordered forward list vs child-bearing fields; look-ahead classified by effect tree",
                text="Which nodes contribute tokens and in what order: every Pairs impl (320+, incl. Seq2..13, Choice2..13, 259 Unicode leaves, containers) "
                     "forwards each child-bearing field exactly once in declaration order (Skipped: skipped then matched), choices forward the "
                     "matched variant's payload, look-ahead nodes (class POS/NEG by their effect trees) forward nothing, silent rules forward "
                     "content, other rules emit exactly themselves, (compound-)atomic rules report no children, as_token/to_thin copy rule/span/children "
                     "(resolved-term comparison), and container nodes store the node of every child that matched (tokens come from stored nodes). Also: the generated rule structs of every kind under both generators emit / forward as their kind says (R02-KIND); check twins equal parse twins (spans of atomic rules come from check twins).",
                note="Does not decide equality with pest's tree on inputs or span values.",
                ref="§4 C02"),
    "C03": dict(level="other", tech="twin equality of effect decision trees built from typed HIR (path-sensitive abstract evaluation, helpers inlined)",
                text="For every TypedNode / NeverFailedTypedNode / ParsableTypedNode impl in pest_typed and in a fixture that expands every "
                     "exported rule macro (plus the default entry methods and rule::parse/check), the parse method and the check method "
                     "have equal normal-form effect decision trees: same cursor/stack/tracker events with the same constants on every path, "
                     "same guards and loop ranges, same returned cursor. Holds for every instantiation (generic code), hence every grammar/input; "
                     "equal tracker events give the identical-error clause. Decides structure, not behaviour on inputs.",
                note="Trusts the EDT evaluator's models of core items (Option, ?, for, array::from_fn, closures) and that generic children obey "
                     "the same rule (established for all impls in the workspace by this rule; user impls out of scope). One reviewed exception: "
                     "[T;N] parse twin's dead Err arm of Vec::try_into.",
                ref="§4 C03; §3.3; Appendix A, D"),
    "C04": dict(level="other", tech="path rules (must-pass-through, no-success-without-EOI) on effect decision trees of every rule-macro expansion",
                text="For every expansion of the exported rule macros (fixture crate, all kinds, shortcut and generator forms) and for "
                     "rule::{parse,check,parse_without_ignore,check_without_ignore}: the full-parse wrapper is prefix match on the given input -> "
                     "trailing skip iff the rule is not (compound-)atomic -> end-of-input test recorded under Rule::EOI on that cursor -> success "
                     "iff it holds, returning the prefix match's tree; no other success leaf; TypedParser/default entry methods create a fresh "
                     "Stack and Tracker and delegate once. Structural clauses only.",
                note="Trusts the EDT evaluator; what the skip node matches on an input is not decided; generator's choice of macro arguments per rule kind is covered under C07/C20.",
                ref="§4 C04"),
    "C05": dict(level="other", tech="typestate (acquire/release pairing, must-pass-through) rules on effect decision trees from typed HIR",
                text="On the effect decision trees of every combinator (generic code: all grammars, all inputs): snapshot and restore/clear_snapshot "
                     "are balanced on every path; every path that recovers from a failed child (next alternative, None option, end of repetition, "
                     "negative look-ahead) passes restore, with a snapshot taken before the attempt, before any further stack/cursor/child event; "
                     "look-ahead nodes snapshot and never clear (stack restored even on success); no cursor produced inside a failed attempt is used "
                     "afterwards; who-may-call: every caller of the snapshot API satisfies the pairing rule; a child that matched is never thrown away with its stack "
                     "effects kept (every continuing path uses the matched cursor or passes restore). Necessary structural conditions, not "
                     "acceptance on inputs.",
                note="Assumes pest::Stack implements snapshot/restore as documented (known unsound nested clear_snapshot in pest 2.7.14 is listed in the "
                     "evidence assumptions); cursor primitives move the cursor only on success (C09 rule).",
                ref="§4 C05; §3.3"),
    "C06": dict(level="other", tech="effect-decision-tree path rules per stack built-in + sibling normal-form equality of index normalisation with pest",
                text="PEEK/POP/DROP/PEEK_ALL/POP_ALL/PeekSlice1/PeekSlice2/Push, both twins: right stack operation, the text matched is the text of "
                     "the entry read, PEEK_ALL iterates through Rev<..> (top to bottom) and slices forward, POP_ALL pops until empty after a "
                     "PEEK_ALL match, empty stack / out-of-range exits report and fail, empty range succeeds without consuming, Push pushes "
                     "span(start, end of operand); constrain_idxs/normalize_index are the same programs as pest's; no panic-capable site except "
                     "stack[range] behind the range checks.",
                note="Trusts pest's parser_state.rs as oracle for index arithmetic; text equality on inputs is match_string's behaviour.",
                ref="§4 C06"),
    "C07": dict(level="other", tech="placement rules for skip events on effect decision trees; impl-table rule for entry points (type-level constants on fixtures: see notes)",
                text="Skip (never-failing) match events occur exactly before every sequence element but the first (inside Loop(0..SKIP) with the "
                     "element type's Skip and SKIP), before repetition iterations under the guard i != 0, and between prefix match and EOI in the "
                     "skipping full-parse wrapper - and nowhere else (rule structs contain none); after a failed iteration the loop-carried "
                     "cursor is unchanged (skip given back); ParsableTypedNode exists only for <'i, 1>.",
                note="What WHITESPACE/COMMENT match is the skip node's behaviour. Atomicity constants emitted by the generator are decided by the "
                     "type-level rules (R07-CONST/SKIPTY/SITES) once registered in this check's rule list (see evidence rules[]).",
                ref="§4 C07"),
    "C08": dict(level="other", tech="HIR data-flow over Input impls in both build profiles (slice bounds, cursor field identity, uses of the parent string, conversion fields)",
                text="For Position/SubInput1/SubInput2 in debug and release builds: get() slices input from the cursor field up to exactly end() (both "
                     "cfg arms the same range), byte_offset()/cursor() denote the same field, at_start/at_end compare with start()/end() and SOI/EOI "
                     "use them; inside Input's methods the parent string only flows to position construction, debug assertions or a slice bounded "
                     "above by end() (this rule found and now guards the fixed skip_until defect); Input's methods delegate to nothing outside the trait "
                     "except reviewed conversions and pure / Input-generic helpers; every child match and primitive of a node runs on a cursor "
                     "derived from the node's own input; AsInput conversions copy the right fields.",
                note="Necessary structural conditions; equality of whole parse results between the two ways of parsing is not decided.",
                ref="§4 C08; §5.1"),
    "C09": dict(level="other", tech="call-graph inventories with exact-key discharge tables (unsafe blocks, panic sites), build-profile normal-form comparison",
                text="Partial: (1) every unsafe block of pest_typed in both build profiles is matched, by a key made of its full expression "
                     "(locals resolved) and dominating guards, against a reviewed discharge table; unsafe fns and callers of cursor() are confined; "
                     "(2) all 3260 function bodies are normal-form equal between debug and release builds, and the only cfg!(debug_assertions) "
                     "switch allowed is checked/unchecked slicing of one range in get(); (3) every panic-capable, debug-assert and usize-subtraction "
                     "site reachable from the entry points and Tracker::collect is discharged by exact key. Does not prove panic-freedom. Also: the safe constructors of Span / Position and the line helpers the error report slices with are pest's (the invariants the unchecked slices and the report rely on).",
                note="Discharge reasons are reviewed arguments (tables/discharge_*.json), several rest informally on the cursor invariant; external crates trusted.",
                ref="§4 C09; §3.7"),
    "C10": dict(level="other", tech="finite-domain evaluation of the tracker's decision functions from typed HIR; effect-tree rules for polarity and recording scopes; call-graph inventory",
                text="Partial: Tracker::record is evaluated over all 8 assignments of (prepared, succeeded, positive) and must push to the expected-list "
                     "iff prepared&positive&failed and to the unexpected-list iff prepared&negative&succeeded, the lists being the ones printed under "
                     "`Expected`/`Unexpected`; prepare: Less ignore / Equal keep / Greater clear+move; polarity saved/set/restored around the closure "
                     "with no other writer; record_during_with: push, closure, pop, record only for leaf frames; POS/NEG nodes run their operand under "
                     "polarity true/false (and positive_during / negative_during pass that constant); the frame stack carries (rule, offset, false), "
                     "marks its parent, reports `closure result.is_some()`, a new tracker starts positive and empty, get_entry takes the nearest "
                     "frame at a different offset; the Expected / Unexpected table and the special-error messages print the right lists / payload "
                     "in the right order (templates decoded from the format_args! lowering); every non-silent rule expansion records itself at "
                     "its start, silent ones do not; panic-capable sites reachable from collect are discharged and the position is re-validated.",
                note="'Not before the consumed prefix' and truthfulness on inputs are not decided.",
                ref="§4 C10"),
    "C11": dict(level="other", tech="data-flow / who-may-call in the generator's typed HIR; rustc type-checking fixture grammars; SCC analysis of the parse-path call graph",
                text="Partial: the rule list handed to code emission is syntactically unwrap_or_report(consume_rules(pairs)) (optionally through optimize) "
                     "and emission functions are callable only from derive_typed_parser; for fixture grammars covering every operator variant of both "
                     "generators, recursive grammars under box_only_if_needed and option sets, the emitted code type-checks (reports the known "
                     "finding: counted repetition with pest_optimizer = false emits undefined names); non-dispatched calls on the parse path form no "
                     "cycle, so recursion while parsing goes through the grammar; every loop of the runtime has a structural reason to end (finite "
                     "iterator, or every path back to the head changes what the exit tests read; an empty draw is no progress); consuming "
                     "primitives move the real cursor iff they succeed; stack built-ins and index normalisation fail where pest's validator "
                     "assumes they fail or progress. Termination on inputs is not decided.",
                note="pest_meta's validator is trusted; 'compiles' is sampled over fixture grammars with checked operator coverage.",
                ref="§4 C11; §5.3"),
    "C12": dict(level="translation_validation", tech="sibling normal-form equality of typed HIR (repo copy vs pest source)",
                text="Translation validation: Position::{new,line_col,line_of,find_line_start,find_line_end,at_start,at_end,...} "
                     "are shown to be the same programs as pest's (typed-HIR normal forms equal), hence equal results for every "
                     "string and offset; no crate-local trait shadows them in method-call syntax and calls inside pest_typed resolve to them. "
                     "Sufficient, not necessary: an unabsorbed behaviour-preserving rewrite is reported.",
                note="Trusts: pest's source (version resolved by Cargo.lock) as oracle; ptfacts prints rustc's HIR faithfully; "
                     "snf.py's normalisations (alpha-renaming, crate prefix, new_internal/new_unchecked, unsafe blocks, debug_assert) preserve meaning.",
                ref="§4 C12,C13; §3.4"),
    "C13": dict(level="translation_validation", tech="sibling normal-form equality of typed HIR (repo copy vs pest source)",
                text="Translation validation: Span::{new,get,start,end,start_pos,end_pos,split,as_str,get_input,lines,lines_span}, "
                     "merge_spans, LinesSpan/Lines::next, PartialEq/Hash of Span and Position are the same programs as pest's; no crate-local trait "
                     "shadows them in method-call syntax and calls inside pest_typed resolve to them. The two Position helpers LinesSpan::next cuts lines with are compared as well.",
                note="Same trusted base as C12.",
                ref="§4 C12,C13; §3.4"),
    "C14": dict(level="other", tech="call-graph inventory of panic/usize-subtraction sites with exact-key discharge table; match-table read-off; must-pass-through rule",
                text="Partial: every panic-capable site and raw usize subtraction reachable from Display/display of Span and Position is discharged by a "
                     "reviewed reason keyed by expression and guards (this rule found the empty-input panic, now fixed); control characters map to "
                     "their pictures (33 table entries read from the match); every successful path of display_span/display_position must pass a "
                     "display_snippet call (reports the known finding: a Position at end of input is displayed as nothing); the line searches use the "
                     "right comparison and advance once per round; Partition constructors cut the line where their field names say; every printed "
                     "number is partition.line + 1 (+2, +3, end+0 for the rows between); paddings measure `former`, marker runs `middle`, all with one "
                     "width function. The arithmetic itself on inputs is not decided.",
                note="Discharge table is part of the specification; one open known finding (R14-SHOW:display_position) in known_findings.json.",
                ref="§4 C14; §5.2, §5.5"),
    "C15": dict(level="other", tech="path enumeration over the typed HIR of the two work-list traversals with a work-list event alphabet and emptiness facts; resolved-term comparison of token construction and delegation; decoded format_args! template of the renderer; C02's forwarding instances",
                text="Partial (structural clauses only): children()/self_or_children() return exactly what the forwarding callback is given, in call "
                     "order (C02's instances decide what is forwarded); as_token/to_thin/as_thin_token copy rule, span offsets and children through "
                     "order-preserving steps; in iterate_level_order / iterate_pre_order, on every path a token drawn from the work list reaches the "
                     "callback exactly once and its children are queued exactly once, only drawn tokens reach the callback, the work list is seeded "
                     "once with the root, draws are from the front, children are appended at the back (level-order: queues swapped only when one is "
                     "empty) or pushed as the new top (pre-order: the top popped only when empty, depth = stack.len() - 1 read before the push), Ok "
                     "is returned only where all work lists are known to be empty, every loop path makes progress; write_tree_to renders through "
                     "iterate_pre_order with four spaces per level, the rule, and the matched text exactly on leaves. That these conditions add up "
                     "to 'every token exactly once, in order' for all tree shapes is the usual induction on the work-list invariant and is argued in "
                     "DESIGN.md, not machine-checked; span nesting / sibling order are not decided.",
                note="A traversal rewritten in another form (recursion, a single explicit stack) is reported as not recognised: the rule fails closed.",
                ref="§4 C15"),
    "C16": dict(level="other", tech="type-tree walk of derive output + abstract evaluation of getter bodies as projections (fixtures); sibling equality of the two generators",
                text="Partial, on fixture grammars with repeated mentions, nested options/choices/repetitions, mentions under & and !, optimizer on/off "
                     "and reduced boxing: a getter exists exactly for the rules mentioned outside negative predicates; its return type is the "
                     "Option/Vec/tuple nesting of the mentions found in the rule's content type (nested options flattened); every leaf of the getter "
                     "body, evaluated as a projection, denotes the position of the i-th mention in grammar order; the two Generate impls build "
                     "getters identically for shared operators, also in a grammar-extras build (node tags). Variant _k of ChoiceN holds the k-th parameter (C17's instances); silent rules with mentions are among the fixture rules.",
                note="Sampled over fixture grammars; expectations are computed from the emitted content type, not from the generator's getter code.",
                ref="§4 C16"),
    "C17": dict(level="other", tech="item-table and accessor-body rules (preconditions of parametricity), child order in effect trees, leaf payload data-flow",
                text="ChoiceN/SeqN/helper enums (arity 2..13): variant i is named _i and holds the i-th distinct type parameter, accessor _i reads "
                     "variant _i, the helper chain runs the closure only for its first variant and passes the others on unchanged, sequence accessors "
                     "return content.0..n-1 in order; alternatives/elements are tried in parameter order and alternative k is stored in variant _k; "
                     "NEWLINE kind per literal, CharRange/ANY/Unicode content is the char read by the advancing primitive, Insens/PEEK/Skip spans are "
                     "span(start, end), POP's span is the popped span, repetition iterators walk content in order; every Input::next hands out the "
                     "character it read before moving the cursor; containers store every matched child. Built-in range aliases list their alternatives in pest's order; get() slices from the cursor in both profiles; Input::next hands out exactly the consumed character.",
                note="match_choices! and generated arities >= 12 are exercised through fixtures only.",
                ref="§4 C17"),
    "C18": dict(level="other", tech="impl-table rules: field coverage of hand-written eq/hash, derived impls elsewhere, state scan of the runtime crate",
                text="Partial: every hand-written PartialEq::eq / Hash::hash (SeqN, Span, Position) touches exactly the type's fields, eq and hash "
                     "the same ones; every other node type has derived Clone/PartialEq/Hash; pest_typed has no static, thread-local, hash-ordered "
                     "collection, interior-mutability or environment access; entry methods build a fresh Stack and Tracker. Hand-written eq is a conjunction of field equalities; hand-written Debug (structs and ChoiceN) shows every data field / labels each variant with its own name.",
                note="'Equal exactly when same Debug rendering' on values is not decided.",
                ref="§4 C18"),
    "C19": dict(level="other", tech="effect-decision-tree rules: loop range, lower-bound guard, success counting; alias type structure",
                text="RepeatMin/RepeatMinMax/AtomicRepeat (TypedNode and NeverFailedTypedNode impls, both twins): loop over 0.. / 0..MAX, one unit "
                     "per iteration, success carries the unit's cursor, failure fails iff i < MIN else stops with the pre-iteration cursor, i counts "
                     "successes, never-failing impls only for MIN = 0; [T;N], (T1,T2), Option<T>, SkipChar<N> have the shapes they denote; the "
                     "RepExact/RepMin/RepMinMax/Rep/RepOnce aliases route their bounds to the right const parameters; twins equal. Skip (the optimizer's form of `(!(s|..) ~ ANY)*`) always succeeds with the cursor skip_until left, both twins.",
                note="Generic children obey their contracts; decides structure of generic code, not behaviour on inputs.",
                ref="§4 C19"),
    "C20": dict(level="other", tech="resolved-call scan for nondeterminism; sibling normal-form equality of the two Generate impls; rustc on fixture matrices; type-level facts per rule across option sets",
                text="Partial: the generator iterates no hash-ordered collection and touches clock/thread/env only for path collection; the raw-AST and "
                     "optimized-AST generators translate all 13 shared operators (15 with grammar-extras) and the rule graph identically; derive output compiles for every "
                     "operator variant (optimizer on/off), for recursive grammars with box_only_if_needed and under option combinations (9 quick / 64 "
                     "thorough); across option sets with the same optimizer setting every rule keeps class tree, atomicity constants and emission, "
                     "only boxing/accessors differ. Reports the known finding (undefined RepExact/RepMin/RepMax names). Optimizer on/off language "
                     "equivalence is not decided. The optimizer's Skip form reads no further than the loop it replaces (C08's bound instances); grammars that shadow built-ins compile.",
                note="pest's optimizer trusted; option effects decided on fixture grammars at type level.",
                ref="§4 C20; §5.3"),
}
NA = {}
ALL = ["C%02d" % i for i in range(1, 21)]


def main():
    checks = []
    for pid in ALL:
        if pid not in CHECKS:
            continue
        c = CHECKS[pid]
        checks.append({
            "property_id": pid,
            "quick_cmd": "./check %s --tier quick" % pid,
            "thorough_cmd": "./check %s --tier thorough" % pid,
            "evidence_file": "/verif/evidence/%s.json" % pid,
            "replay_cmd_template": "./check %s --tier quick  # re-evaluates every rule instance; the replay file {path} names the failing one" % pid,
            "engine": "ptlint",
            "level_claimed": {"category": c["level"], "text": c["text"], "design_ref": c["ref"]},
            "level_note": c["note"],
            "technique": c["tech"],
        })
    na = []
    for pid in ALL:
        if pid in CHECKS:
            continue
        na.append({"property_id": pid, "reason": NA.get(pid, "no static rule registered yet (framework under construction; see DESIGN.md §9)")})
    m = {
        "version": 1,
        "setup_cmd": "./setup.sh",
        "hooks": {
            "guard": "pest_typed_verif",
            "enable": "none needed: the analyses read source and compiler tables (typed HIR) only; no hook commits exist",
            "baseline_off_cmd": "cd /repo && cargo test --workspace --no-fail-fast --offline",
            "source_commits": [],
            "add_only": True,
        },
        "engines": [
            {"name": "ptfacts", "path": "ptfacts/", "serves_properties": sorted(CHECKS),
             "kind_free_text": "rustc_private driver (nightly) dumping typed HIR (resolved callees, generic args, types, macro backtraces) as JSON"},
            {"name": "ptlint", "path": "ptlint/", "serves_properties": sorted(CHECKS),
             "kind_free_text": "Python static analyses over HIR-lite: sibling normal form (SNF), effect decision trees (EDT), template recovery (TPL), type trees (TT), call-graph inventories (INV)"},
        ],
        "checks": checks,
        "not_applicable": na,
        "notes": "All checks are static: they compile (never run) /repo's current tree under the ptfacts driver and decide from typed HIR. See DESIGN.md.",
    }
    with open("MANIFEST.json", "w") as fh:
        json.dump(m, fh, indent=1)


if __name__ == "__main__":
    main()
