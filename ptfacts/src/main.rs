// ptfacts: rustc_private driver that dumps typed HIR ("HIR-lite") as JSON.
//
// Used as RUSTC_WRAPPER / RUSTC_WORKSPACE_WRAPPER. For crates listed in
// PTFACTS_CRATES (comma separated crate names) it writes one JSON file per rustc
// process into PTFACTS_OUT. All other crates are compiled unchanged.
#![feature(rustc_private)]

extern crate rustc_ast;
extern crate rustc_driver;
extern crate rustc_hir;
extern crate rustc_interface;
extern crate rustc_middle;
extern crate rustc_session;
extern crate rustc_span;

use rustc_driver::Compilation;
use rustc_hir as hir;
use rustc_hir::def::{DefKind, Res};
use rustc_hir::def_id::{DefId, LocalDefId};
use rustc_interface::interface::Compiler;
use rustc_middle::ty::{self, GenericArgKind, Ty, TyCtxt, TypeVisitableExt, TypeckResults};
use rustc_span::Span;
use std::collections::HashMap;
use std::fmt::Write as _;

// ---------------------------------------------------------------- JSON

#[derive(Clone, Debug)]
enum J {
    Null,
    Bool(bool),
    Num(i64),
    Str(String),
    Arr(Vec<J>),
    Obj(Vec<(&'static str, J)>),
}

fn esc(s: &str, out: &mut String) {
    out.push('"');
    for c in s.chars() {
        match c {
            '"' => out.push_str("\\\""),
            '\\' => out.push_str("\\\\"),
            '\n' => out.push_str("\\n"),
            '\r' => out.push_str("\\r"),
            '\t' => out.push_str("\\t"),
            c if (c as u32) < 0x20 => {
                let _ = write!(out, "\\u{:04x}", c as u32);
            }
            c => out.push(c),
        }
    }
    out.push('"');
}

impl J {
    fn write(&self, out: &mut String) {
        match self {
            J::Null => out.push_str("null"),
            J::Bool(b) => out.push_str(if *b { "true" } else { "false" }),
            J::Num(n) => {
                let _ = write!(out, "{}", n);
            }
            J::Str(s) => esc(s, out),
            J::Arr(v) => {
                out.push('[');
                for (i, x) in v.iter().enumerate() {
                    if i > 0 {
                        out.push(',');
                    }
                    x.write(out);
                }
                out.push(']');
            }
            J::Obj(v) => {
                out.push('{');
                let mut first = true;
                for (k, x) in v.iter() {
                    if let J::Null = x {
                        continue;
                    }
                    if !first {
                        out.push(',');
                    }
                    first = false;
                    esc(k, out);
                    out.push(':');
                    x.write(out);
                }
                out.push('}');
            }
        }
    }
}

fn s(x: impl Into<String>) -> J {
    J::Str(x.into())
}
fn n(x: usize) -> J {
    J::Num(x as i64)
}
fn opt(x: Option<J>) -> J {
    x.unwrap_or(J::Null)
}

// ---------------------------------------------------------------- dumper

struct Dumper<'tcx> {
    tcx: TyCtxt<'tcx>,
    types: Vec<J>,
    type_ix: HashMap<Ty<'tcx>, usize>,
    files: Vec<String>,
    file_ix: HashMap<String, usize>,
    mbs: Vec<J>,
    mb_ix: HashMap<String, usize>,
}

impl<'tcx> Dumper<'tcx> {
    fn path(&self, did: DefId) -> String {
        self.tcx.def_path_str(did)
    }

    fn file_id(&mut self, name: String) -> usize {
        if let Some(i) = self.file_ix.get(&name) {
            return *i;
        }
        let i = self.files.len();
        self.files.push(name.clone());
        self.file_ix.insert(name, i);
        i
    }

    /// [file, line, col]
    fn sp(&mut self, span: Span) -> J {
        let sm = self.tcx.sess.source_map();
        if span.is_dummy() {
            return J::Null;
        }
        let lo = sm.lookup_char_pos(span.lo());
        let hi = sm.lookup_char_pos(span.hi());
        let name = format!("{}", lo.file.name.prefer_local_unconditionally());
        let f = self.file_id(name);
        J::Arr(vec![n(f), n(lo.line), n(lo.col.0 + 1), n(hi.line), n(hi.col.0 + 1)])
    }

    /// macro backtrace id (None if not from expansion)
    fn mb(&mut self, span: Span) -> J {
        if !span.from_expansion() {
            return J::Null;
        }
        let mut names: Vec<String> = Vec::new();
        for ed in span.macro_backtrace() {
            let nm = match ed.kind {
                rustc_span::ExpnKind::Macro(k, name) => format!("{}:{}", k.descr(), name),
                rustc_span::ExpnKind::Desugaring(d) => format!("desugar:{:?}", d),
                rustc_span::ExpnKind::AstPass(p) => format!("astpass:{:?}", p),
                rustc_span::ExpnKind::Root => "root".to_string(),
            };
            names.push(nm);
        }
        let key = names.join("|");
        if let Some(i) = self.mb_ix.get(&key) {
            return n(*i);
        }
        let i = self.mbs.len();
        self.mbs.push(J::Arr(names.into_iter().map(J::Str).collect()));
        self.mb_ix.insert(key, i);
        n(i)
    }

    fn garg(&mut self, a: ty::GenericArg<'tcx>) -> J {
        match a.kind() {
            GenericArgKind::Type(t) => J::Obj(vec![("t", n(self.ty(t)))]),
            GenericArgKind::Const(c) => J::Obj(vec![("c", s(format!("{}", c)))]),
            GenericArgKind::Lifetime(r) => J::Obj(vec![("l", s(format!("{}", r)))]),
        }
    }

    fn gargs(&mut self, args: ty::GenericArgsRef<'tcx>) -> J {
        J::Arr(args.iter().map(|a| self.garg(a)).collect())
    }

    fn ty(&mut self, t: Ty<'tcx>) -> usize {
        if let Some(i) = self.type_ix.get(&t) {
            return *i;
        }
        // reserve slot first (recursive types cannot occur in Ty, but keep order stable)
        let i = self.types.len();
        self.types.push(J::Null);
        self.type_ix.insert(t, i);
        let st = format!("{}", t);
        let j = match t.kind() {
            ty::Adt(def, args) => {
                let p = self.path(def.did());
                let a = self.gargs(args);
                J::Obj(vec![("k", s("adt")), ("path", s(p)), ("args", a), ("s", s(st))])
            }
            ty::Param(p) => J::Obj(vec![("k", s("param")), ("name", s(p.name.to_string())), ("s", s(st))]),
            ty::Ref(_, inner, m) => {
                let x = self.ty(*inner);
                J::Obj(vec![("k", s("ref")), ("mut", J::Bool(m.is_mut())), ("inner", n(x)), ("s", s(st))])
            }
            ty::Tuple(elems) => {
                let v: Vec<J> = elems.iter().map(|e| n(self.ty(e))).collect();
                J::Obj(vec![("k", s("tuple")), ("elems", J::Arr(v)), ("s", s(st))])
            }
            ty::Array(e, len) => {
                let x = self.ty(*e);
                J::Obj(vec![("k", s("array")), ("elem", n(x)), ("len", s(format!("{}", len))), ("s", s(st))])
            }
            ty::Slice(e) => {
                let x = self.ty(*e);
                J::Obj(vec![("k", s("slice")), ("elem", n(x)), ("s", s(st))])
            }
            ty::Bool | ty::Char | ty::Int(_) | ty::Uint(_) | ty::Float(_) | ty::Str | ty::Never => {
                J::Obj(vec![("k", s("prim")), ("s", s(st))])
            }
            ty::FnDef(did, args) => {
                let p = self.path(*did);
                let a = self.gargs(args);
                J::Obj(vec![("k", s("fndef")), ("path", s(p)), ("args", a), ("s", s(st))])
            }
            ty::Closure(did, _) => {
                let p = self.path(*did);
                J::Obj(vec![("k", s("closure")), ("path", s(p)), ("s", s(st))])
            }
            ty::Alias(at) => {
                let p = self.path(at.kind.def_id());
                let a = self.gargs(at.args);
                J::Obj(vec![("k", s("alias")), ("path", s(p)), ("args", a), ("s", s(st))])
            }
            _ => J::Obj(vec![("k", s("other")), ("s", s(st))]),
        };
        self.types[i] = j;
        i
    }

    // ------------------------------------------------------------ patterns

    fn pat(&mut self, tr: &'tcx TypeckResults<'tcx>, p: &'tcx hir::Pat<'tcx>) -> J {
        use hir::PatKind::*;
        let ty = tr.node_type_opt(p.hir_id).map(|t| n(self.ty(t)));
        let mut o: Vec<(&'static str, J)> = Vec::new();
        match p.kind {
            Wild => o.push(("k", s("wild"))),
            Missing => o.push(("k", s("wild"))),
            Never => o.push(("k", s("never"))),
            Binding(mode, hid, ident, sub) => {
                o.push(("k", s("bind")));
                o.push(("var", s(format!("{}_{}", hid.owner.def_id.local_def_index.as_u32(), hid.local_id.as_u32()))));
                o.push(("name", s(ident.name.to_string())));
                o.push(("mut", J::Bool(mode.1.is_mut())));
                o.push(("by_ref", J::Bool(!matches!(mode.0, hir::ByRef::No))));
                if let Some(sp) = sub {
                    let x = self.pat(tr, sp);
                    o.push(("sub", x));
                }
            }
            Struct(ref qp, fields, _) => {
                o.push(("k", s("struct")));
                let r = tr.qpath_res(qp, p.hir_id);
                o.push(("res", self.res(r)));
                let fs: Vec<J> = fields
                    .iter()
                    .map(|f| {
                        let x = self.pat(tr, f.pat);
                        J::Obj(vec![("name", s(f.ident.name.to_string())), ("p", x)])
                    })
                    .collect();
                o.push(("fields", J::Arr(fs)));
            }
            TupleStruct(ref qp, ps, ddpos) => {
                o.push(("k", s("tstruct")));
                let r = tr.qpath_res(qp, p.hir_id);
                o.push(("res", self.res(r)));
                let v: Vec<J> = ps.iter().map(|x| self.pat(tr, x)).collect();
                o.push(("ps", J::Arr(v)));
                if let Some(d) = ddpos.as_opt_usize() {
                    o.push(("dotdot", n(d)));
                }
            }
            Or(ps) => {
                o.push(("k", s("or")));
                let v: Vec<J> = ps.iter().map(|x| self.pat(tr, x)).collect();
                o.push(("ps", J::Arr(v)));
            }
            Tuple(ps, ddpos) => {
                o.push(("k", s("tuple")));
                let v: Vec<J> = ps.iter().map(|x| self.pat(tr, x)).collect();
                o.push(("ps", J::Arr(v)));
                if let Some(d) = ddpos.as_opt_usize() {
                    o.push(("dotdot", n(d)));
                }
            }
            Box(x) | Deref(x) => {
                o.push(("k", s("deref")));
                let x = self.pat(tr, x);
                o.push(("p", x));
            }
            Ref(x, ..) => {
                o.push(("k", s("ref")));
                let x = self.pat(tr, x);
                o.push(("p", x));
            }
            Expr(pe) => {
                o.push(("k", s("expr")));
                match pe.kind {
                    hir::PatExprKind::Lit { lit, negated } => {
                        o.push(("lit", self.lit(&lit, negated)));
                    }
                    hir::PatExprKind::Path(ref qp) => {
                        let r = tr.qpath_res(qp, pe.hir_id);
                        o.push(("res", self.res(r)));
                    }
                    _ => {
                        o.push(("other", s("const_block")));
                    }
                }
            }
            Guard(x, g) => {
                o.push(("k", s("guard")));
                let x = self.pat(tr, x);
                o.push(("p", x));
                let g = self.expr(tr, g);
                o.push(("guard", g));
            }
            Range(lo, hi, end) => {
                o.push(("k", s("range")));
                let f = |d: &mut Self, pe: Option<&'tcx hir::PatExpr<'tcx>>| -> J {
                    match pe {
                        None => J::Null,
                        Some(pe) => match pe.kind {
                            hir::PatExprKind::Lit { lit, negated } => d.lit(&lit, negated),
                            hir::PatExprKind::Path(ref qp) => {
                                let r = tr.qpath_res(qp, pe.hir_id);
                                d.res(r)
                            }
                            _ => s("?"),
                        },
                    }
                };
                let l = f(self, lo);
                let h = f(self, hi);
                o.push(("lo", l));
                o.push(("hi", h));
                o.push(("incl", J::Bool(matches!(end, hir::RangeEnd::Included))));
            }
            Slice(a, m, b) => {
                o.push(("k", s("slice")));
                let v: Vec<J> = a.iter().map(|x| self.pat(tr, x)).collect();
                o.push(("before", J::Arr(v)));
                if let Some(m) = m {
                    let x = self.pat(tr, m);
                    o.push(("mid", x));
                }
                let v: Vec<J> = b.iter().map(|x| self.pat(tr, x)).collect();
                o.push(("after", J::Arr(v)));
            }
            Err(_) => o.push(("k", s("err"))),
        }
        o.push(("ty", opt(ty)));
        J::Obj(o)
    }

    fn lit(&mut self, l: &hir::Lit, negated: bool) -> J {
        use rustc_ast::LitKind::*;
        let v = match &l.node {
            Str(sym, _) => J::Obj(vec![("str", s(sym.as_str()))]),
            ByteStr(b, _) => J::Obj(vec![("bytes", s(b.as_byte_str().iter().map(|x| format!("{:02x}", x)).collect::<String>()))]),
            CStr(..) => J::Obj(vec![("bytes", s("?"))]),
            Byte(b) => J::Obj(vec![("int", s(format!("{}", b)))]),
            Char(c) => J::Obj(vec![("char", s(c.to_string()))]),
            Int(i, _) => J::Obj(vec![("int", s(format!("{}{}", if negated { "-" } else { "" }, i.get())))]),
            Float(f, _) => J::Obj(vec![("float", s(f.as_str()))]),
            Bool(b) => J::Obj(vec![("bool", J::Bool(*b))]),
            Err(_) => J::Null,
        };
        v
    }

    fn res(&mut self, r: Res) -> J {
        match r {
            Res::Def(kind, did) => J::Obj(vec![
                ("r", s("def")),
                ("kind", s(format!("{:?}", kind))),
                ("path", s(self.path(did))),
                ("krate", s(self.tcx.crate_name(did.krate).to_string())),
            ]),
            Res::Local(hid) => J::Obj(vec![
                ("r", s("local")),
                ("var", s(format!("{}_{}", hid.owner.def_id.local_def_index.as_u32(), hid.local_id.as_u32()))),
            ]),
            Res::SelfTyParam { .. } => J::Obj(vec![("r", s("selfty"))]),
            Res::SelfTyAlias { alias_to, .. } => J::Obj(vec![("r", s("selfalias")), ("path", s(self.path(alias_to)))]),
            Res::SelfCtor(did) => J::Obj(vec![("r", s("selfctor")), ("path", s(self.path(did)))]),
            Res::PrimTy(p) => J::Obj(vec![("r", s("prim")), ("name", s(p.name_str()))]),
            _ => J::Obj(vec![("r", s("other"))]),
        }
    }

    /// resolved callee: path + generic args + (if resolvable) concrete instance
    fn callee(&mut self, owner: LocalDefId, did: DefId, args: ty::GenericArgsRef<'tcx>) -> J {
        let mut o = vec![
            ("path", s(self.path(did))),
            ("krate", s(self.tcx.crate_name(did.krate).to_string())),
            ("args", self.gargs(args)),
        ];
        let tcx = self.tcx;
        if matches!(tcx.def_kind(did), DefKind::AssocFn | DefKind::AssocConst { .. }) {
            if let Some(tr) = tcx.trait_of_assoc(did) {
                o.push(("trait", s(self.path(tr))));
                if matches!(tcx.def_kind(did), DefKind::AssocFn) {
                    let env = ty::TypingEnv::post_analysis(tcx, owner.to_def_id());
                    // only try when args have no inference leftovers
                    if args.len() == tcx.generics_of(did).count() && !args.iter().any(|a| a.has_infer()) {
                        if let Ok(Some(inst)) = ty::Instance::try_resolve(tcx, env, did, args) {
                            let idid = inst.def_id();
                            if idid != did {
                                o.push(("inst", s(self.path(idid))));
                                o.push(("inst_args", self.gargs(inst.args)));
                            }
                        }
                    }
                }
            } else if let Some(imp) = tcx.inherent_impl_of_assoc(did) {
                o.push(("impl", s(self.path(imp))));
            }
        }
        J::Obj(o)
    }

    fn adj(&mut self, tr: &'tcx TypeckResults<'tcx>, e: &'tcx hir::Expr<'tcx>) -> J {
        let adjs = tr.expr_adjustments(e);
        if adjs.is_empty() {
            return J::Null;
        }
        let mut v = Vec::new();
        for a in adjs {
            use ty::adjustment::Adjust::*;
            let k = match &a.kind {
                NeverToAny => "never".to_string(),
                Deref(ty::adjustment::DerefAdjustKind::Builtin) => "deref".to_string(),
                Deref(ty::adjustment::DerefAdjustKind::Overloaded(_)) => "deref_overloaded".to_string(),
                Deref(_) => "deref_pin".to_string(),
                Borrow(b) => match b {
                    ty::adjustment::AutoBorrow::Ref(m) => {
                        if matches!(m, ty::adjustment::AutoBorrowMutability::Mut { .. }) {
                            "borrow_mut".to_string()
                        } else {
                            "borrow".to_string()
                        }
                    }
                    _ => "borrow_raw".to_string(),
                },
                Pointer(p) => format!("pointer:{:?}", p),
                _ => "other".to_string(),
            };
            v.push(J::Obj(vec![("k", s(k)), ("ty", n(self.ty(a.target)))]));
        }
        J::Arr(v)
    }

    // ------------------------------------------------------------ expressions

    fn block(&mut self, tr: &'tcx TypeckResults<'tcx>, b: &'tcx hir::Block<'tcx>) -> Vec<(&'static str, J)> {
        let mut stmts = Vec::new();
        for st in b.stmts {
            match st.kind {
                hir::StmtKind::Let(l) => {
                    let mut o = vec![("k", s("let")), ("pat", self.pat(tr, l.pat))];
                    if let Some(init) = l.init {
                        o.push(("init", self.expr(tr, init)));
                    }
                    if let Some(els) = l.els {
                        let bo = self.block(tr, els);
                        o.push(("els", J::Obj(bo)));
                    }
                    o.push(("sp", self.sp(st.span)));
                    stmts.push(J::Obj(o));
                }
                hir::StmtKind::Item(id) => {
                    let did = id.owner_id.to_def_id();
                    stmts.push(J::Obj(vec![("k", s("item")), ("id", s(self.path(did)))]));
                }
                hir::StmtKind::Expr(e) | hir::StmtKind::Semi(e) => {
                    let semi = matches!(st.kind, hir::StmtKind::Semi(_));
                    stmts.push(J::Obj(vec![("k", s("expr")), ("e", self.expr(tr, e)), ("semi", J::Bool(semi))]));
                }
            }
        }
        let unsafe_ = matches!(b.rules, hir::BlockCheckMode::UnsafeBlock(_));
        let mut o = vec![("k", s("block")), ("unsafe", J::Bool(unsafe_)), ("stmts", J::Arr(stmts))];
        if let Some(t) = b.expr {
            o.push(("tail", self.expr(tr, t)));
        }
        o
    }

    fn expr(&mut self, tr: &'tcx TypeckResults<'tcx>, e: &'tcx hir::Expr<'tcx>) -> J {
        use hir::ExprKind::*;
        let owner = tr.hir_owner.def_id;
        let mut o: Vec<(&'static str, J)> = Vec::new();
        match e.kind {
            ConstBlock(_) => o.push(("k", s("const_block"))),
            Array(es) => {
                o.push(("k", s("array")));
                let v: Vec<J> = es.iter().map(|x| self.expr(tr, x)).collect();
                o.push(("es", J::Arr(v)));
            }
            Call(f, args) => {
                o.push(("k", s("call")));
                // resolved callee when f is a path to a fn
                let mut callee = J::Null;
                if let Path(ref qp) = f.kind {
                    if let Res::Def(kind, did) = tr.qpath_res(qp, f.hir_id) {
                        if matches!(kind, DefKind::Fn | DefKind::AssocFn | DefKind::Ctor(..)) {
                            let a = tr.node_args(f.hir_id);
                            callee = self.callee(owner, did, a);
                            if let J::Obj(ref mut v) = callee {
                                v.push(("kind", s(format!("{:?}", kind))));
                            }
                        }
                    }
                } else if tr.is_method_call(e) {
                    // overloaded call (Fn* traits)
                    if let Some(did) = tr.type_dependent_def_id(e.hir_id) {
                        let a = tr.node_args(e.hir_id);
                        callee = self.callee(owner, did, a);
                    }
                }
                if let J::Null = callee {
                    if tr.is_method_call(e) {
                        if let Some(did) = tr.type_dependent_def_id(e.hir_id) {
                            let a = tr.node_args(e.hir_id);
                            callee = self.callee(owner, did, a);
                        }
                    }
                }
                o.push(("callee", callee));
                o.push(("f", self.expr(tr, f)));
                let v: Vec<J> = args.iter().map(|x| self.expr(tr, x)).collect();
                o.push(("args", J::Arr(v)));
            }
            MethodCall(seg, recv, args, _) => {
                o.push(("k", s("mcall")));
                o.push(("name", s(seg.ident.name.to_string())));
                if let Some(did) = tr.type_dependent_def_id(e.hir_id) {
                    let a = tr.node_args(e.hir_id);
                    o.push(("callee", self.callee(owner, did, a)));
                }
                o.push(("recv", self.expr(tr, recv)));
                let v: Vec<J> = args.iter().map(|x| self.expr(tr, x)).collect();
                o.push(("args", J::Arr(v)));
            }
            Use(x, _) => {
                o.push(("k", s("use")));
                o.push(("e", self.expr(tr, x)));
            }
            Tup(es) => {
                o.push(("k", s("tuple")));
                let v: Vec<J> = es.iter().map(|x| self.expr(tr, x)).collect();
                o.push(("es", J::Arr(v)));
            }
            Binary(op, l, r) => {
                o.push(("k", s("binary")));
                o.push(("op", s(op.node.as_str())));
                if tr.is_method_call(e) {
                    if let Some(did) = tr.type_dependent_def_id(e.hir_id) {
                        let a = tr.node_args(e.hir_id);
                        o.push(("callee", self.callee(owner, did, a)));
                    }
                }
                o.push(("l", self.expr(tr, l)));
                o.push(("r", self.expr(tr, r)));
            }
            Unary(op, x) => {
                o.push(("k", s("unary")));
                o.push(("op", s(op.as_str())));
                if tr.is_method_call(e) {
                    if let Some(did) = tr.type_dependent_def_id(e.hir_id) {
                        let a = tr.node_args(e.hir_id);
                        o.push(("callee", self.callee(owner, did, a)));
                    }
                }
                o.push(("e", self.expr(tr, x)));
            }
            Lit(l) => {
                o.push(("k", s("lit")));
                o.push(("v", self.lit(&l, false)));
            }
            Cast(x, _) => {
                o.push(("k", s("cast")));
                o.push(("e", self.expr(tr, x)));
            }
            Type(x, _) => {
                o.push(("k", s("type_ascr")));
                o.push(("e", self.expr(tr, x)));
            }
            DropTemps(x) => {
                // transparent
                return self.expr(tr, x);
            }
            Let(l) => {
                o.push(("k", s("let_cond")));
                o.push(("pat", self.pat(tr, l.pat)));
                o.push(("init", self.expr(tr, l.init)));
            }
            If(c, t, el) => {
                o.push(("k", s("if")));
                o.push(("cond", self.expr(tr, c)));
                o.push(("then", self.expr(tr, t)));
                if let Some(el) = el {
                    o.push(("else", self.expr(tr, el)));
                }
            }
            Loop(b, label, src, _) => {
                o.push(("k", s("loop")));
                o.push(("src", s(match src {
                    hir::LoopSource::Loop => "loop",
                    hir::LoopSource::While => "while",
                    hir::LoopSource::ForLoop => "for",
                })));
                if let Some(l) = label {
                    o.push(("label", s(l.ident.name.to_string())));
                }
                o.push(("id", s(format!("{}", e.hir_id.local_id.as_u32()))));
                let bo = self.block(tr, b);
                o.push(("body", J::Obj(bo)));
            }
            Match(scrut, arms, src) => {
                o.push(("k", s("match")));
                o.push(("src", s(match src {
                    hir::MatchSource::Normal => "normal",
                    hir::MatchSource::Postfix => "normal",
                    hir::MatchSource::ForLoopDesugar => "for",
                    hir::MatchSource::TryDesugar(_) => "try",
                    hir::MatchSource::AwaitDesugar => "await",
                    hir::MatchSource::FormatArgs => "format_args",
                })));
                o.push(("scrut", self.expr(tr, scrut)));
                let mut v = Vec::new();
                for arm in arms {
                    let mut ao = vec![("pat", self.pat(tr, arm.pat))];
                    if let Some(g) = arm.guard {
                        ao.push(("guard", self.expr(tr, g)));
                    }
                    ao.push(("body", self.expr(tr, arm.body)));
                    v.push(J::Obj(ao));
                }
                o.push(("arms", J::Arr(v)));
            }
            Closure(c) => {
                o.push(("k", s("closure")));
                o.push(("id", s(self.path(c.def_id.to_def_id()))));
                let body = self.tcx.hir_body(c.body);
                let ps: Vec<J> = body.params.iter().map(|p| self.pat(tr, p.pat)).collect();
                o.push(("params", J::Arr(ps)));
                o.push(("body", self.expr(tr, body.value)));
                // captures
                let mut caps = Vec::new();
                for cp in tr.closure_min_captures_flattened(c.def_id) {
                    let var_hid = cp.get_root_variable();
                    caps.push(s(format!("{}_{}", var_hid.owner.def_id.local_def_index.as_u32(), var_hid.local_id.as_u32())));
                }
                o.push(("captures", J::Arr(caps)));
            }
            Block(b, label) => {
                let mut bo = self.block(tr, b);
                if let Some(l) = label {
                    bo.push(("label", s(l.ident.name.to_string())));
                }
                o = bo;
            }
            Assign(l, r, _) => {
                o.push(("k", s("assign")));
                o.push(("l", self.expr(tr, l)));
                o.push(("r", self.expr(tr, r)));
            }
            AssignOp(op, l, r) => {
                o.push(("k", s("assign_op")));
                o.push(("op", s(op.node.as_str())));
                if tr.is_method_call(e) {
                    if let Some(did) = tr.type_dependent_def_id(e.hir_id) {
                        let a = tr.node_args(e.hir_id);
                        o.push(("callee", self.callee(owner, did, a)));
                    }
                }
                o.push(("l", self.expr(tr, l)));
                o.push(("r", self.expr(tr, r)));
            }
            Field(base, ident) => {
                o.push(("k", s("field")));
                o.push(("name", s(ident.name.to_string())));
                o.push(("base", self.expr(tr, base)));
            }
            Index(base, idx, _) => {
                o.push(("k", s("index")));
                if tr.is_method_call(e) {
                    if let Some(did) = tr.type_dependent_def_id(e.hir_id) {
                        let a = tr.node_args(e.hir_id);
                        o.push(("callee", self.callee(owner, did, a)));
                    }
                }
                o.push(("base", self.expr(tr, base)));
                o.push(("idx", self.expr(tr, idx)));
            }
            Path(ref qp) => {
                let r = tr.qpath_res(qp, e.hir_id);
                match r {
                    Res::Local(hid) => {
                        o.push(("k", s("local")));
                        o.push(("var", s(format!("{}_{}", hid.owner.def_id.local_def_index.as_u32(), hid.local_id.as_u32()))));
                        o.push(("name", s(self.tcx.hir_name(hid).to_string())));
                    }
                    Res::Def(kind, did) => {
                        o.push(("k", s("def")));
                        o.push(("kind", s(format!("{:?}", kind))));
                        let a = tr.node_args(e.hir_id);
                        let c = self.callee(owner, did, a);
                        if let J::Obj(v) = c {
                            o.extend(v);
                        }
                    }
                    other => {
                        o.push(("k", s("def")));
                        o.push(("res", self.res(other)));
                    }
                }
            }
            AddrOf(_, m, x) => {
                o.push(("k", s("addr_of")));
                o.push(("mut", J::Bool(m.is_mut())));
                o.push(("e", self.expr(tr, x)));
            }
            Break(dest, x) => {
                o.push(("k", s("break")));
                if let Some(l) = dest.label {
                    o.push(("label", s(l.ident.name.to_string())));
                }
                if let Ok(t) = dest.target_id {
                    o.push(("target", s(format!("{}", t.local_id.as_u32()))));
                }
                if let Some(x) = x {
                    o.push(("e", self.expr(tr, x)));
                }
            }
            Continue(dest) => {
                o.push(("k", s("continue")));
                if let Ok(t) = dest.target_id {
                    o.push(("target", s(format!("{}", t.local_id.as_u32()))));
                }
            }
            Ret(x) => {
                o.push(("k", s("ret")));
                if let Some(x) = x {
                    o.push(("e", self.expr(tr, x)));
                }
            }
            Become(x) => {
                o.push(("k", s("become")));
                o.push(("e", self.expr(tr, x)));
            }
            Struct(qp, fields, base) => {
                o.push(("k", s("struct")));
                let r = tr.qpath_res(qp, e.hir_id);
                o.push(("res", self.res(r)));
                let fs: Vec<J> = fields
                    .iter()
                    .map(|f| {
                        let x = self.expr(tr, f.expr);
                        J::Obj(vec![("name", s(f.ident.name.to_string())), ("e", x)])
                    })
                    .collect();
                o.push(("fields", J::Arr(fs)));
                if let hir::StructTailExpr::Base(b) = base {
                    o.push(("base", self.expr(tr, b)));
                }
            }
            Repeat(x, _) => {
                o.push(("k", s("repeat")));
                o.push(("e", self.expr(tr, x)));
            }
            Yield(x, _) => {
                o.push(("k", s("yield")));
                o.push(("e", self.expr(tr, x)));
            }
            InlineAsm(_) => o.push(("k", s("asm"))),
            OffsetOf(..) => o.push(("k", s("offset_of"))),
            UnsafeBinderCast(_, x, _) => {
                o.push(("k", s("binder_cast")));
                o.push(("e", self.expr(tr, x)));
            }
            Err(_) => o.push(("k", s("err"))),
        }
        if let Some(t) = tr.expr_ty_opt(e) {
            o.push(("ty", n(self.ty(t))));
        }
        o.push(("adj", self.adj(tr, e)));
        o.push(("sp", self.sp(e.span)));
        o.push(("mb", self.mb(e.span)));
        if e.span.from_expansion() {
            o.push(("cs", self.sp(e.span.source_callsite())));
        }
        J::Obj(o)
    }

    // ------------------------------------------------------------ items

    fn generics(&mut self, did: DefId) -> J {
        let g = self.tcx.generics_of(did);
        let mut v = Vec::new();
        if let Some(p) = g.parent {
            if let J::Arr(pv) = self.generics(p) {
                v.extend(pv);
            }
        }
        for p in &g.own_params {
            let kind = match p.kind {
                ty::GenericParamDefKind::Lifetime => "lifetime",
                ty::GenericParamDefKind::Type { .. } => "type",
                ty::GenericParamDefKind::Const { .. } => "const",
            };
            v.push(J::Obj(vec![("name", s(p.name.to_string())), ("kind", s(kind))]));
        }
        J::Arr(v)
    }

    fn predicates(&mut self, did: DefId) -> J {
        let preds = self.tcx.predicates_of(did);
        let mut v = Vec::new();
        let inst = preds.instantiate_identity(self.tcx);
        for (p, _) in inst.predicates.iter().zip(inst.spans.iter()) {
            let p = p.skip_norm_wip();
            if let Some(tp) = p.as_trait_clause() {
                let tp = tp.skip_binder();
                let self_ty = tp.self_ty();
                v.push(J::Obj(vec![
                    ("self", n(self.ty(self_ty))),
                    ("trait", s(self.path(tp.def_id()))),
                    ("args", self.gargs(tp.trait_ref.args)),
                ]));
            }
        }
        J::Arr(v)
    }

    fn expn(&mut self, span: Span) -> J {
        if !span.from_expansion() {
            return J::Null;
        }
        let ed = span.ctxt().outer_expn_data();
        let name = match ed.kind {
            rustc_span::ExpnKind::Macro(k, name) => format!("{}:{}", k.descr(), name),
            other => format!("{:?}", other),
        };
        J::Obj(vec![
            ("macro", s(name)),
            ("def_site", self.sp(ed.def_site)),
            ("call_site", self.sp(ed.call_site)),
            ("source_callsite", self.sp(span.source_callsite())),
        ])
    }

    fn item(&mut self, ldid: LocalDefId) -> Option<J> {
        let tcx = self.tcx;
        let did = ldid.to_def_id();
        let kind = tcx.def_kind(did);
        let mut o: Vec<(&'static str, J)> = vec![("id", s(self.path(did))), ("kind", s(format!("{:?}", kind)))];
        let span = tcx.def_span(did);
        o.push(("sp", self.sp(span)));
        o.push(("expn", self.expn(span)));
        o.push(("mb", self.mb(span)));
        match kind {
            DefKind::Fn | DefKind::AssocFn | DefKind::Struct | DefKind::Enum | DefKind::Union | DefKind::Trait
            | DefKind::TyAlias | DefKind::Const { .. } | DefKind::Static { .. } | DefKind::AssocConst { .. }
            | DefKind::AssocTy | DefKind::Mod | DefKind::Macro(_) | DefKind::Variant | DefKind::Field => {
                let vis = tcx.visibility(did);
                let v = match vis {
                    ty::Visibility::Public => "pub".to_string(),
                    ty::Visibility::Restricted(m) => {
                        if m.is_top_level_module() { "crate".to_string() } else { format!("restricted:{}", self.path(m)) }
                    }
                };
                o.push(("vis", s(v)));
            }
            _ => {}
        }
        match kind {
            DefKind::Fn | DefKind::AssocFn => {
                o.push(("generics", self.generics(did)));
                o.push(("preds", self.predicates(did)));
                let sig = tcx.fn_sig(did).instantiate_identity().skip_norm_wip().skip_binder();
                let ins: Vec<J> = sig.inputs().iter().map(|t| n(self.ty(*t))).collect();
                o.push(("inputs", J::Arr(ins)));
                o.push(("output", n(self.ty(sig.output()))));
                o.push(("unsafe", J::Bool(sig.safety().is_unsafe())));
                if let DefKind::AssocFn = kind {
                    let parent = tcx.parent(did);
                    o.push(("parent", s(self.path(parent))));
                    o.push(("parent_kind", s(format!("{:?}", tcx.def_kind(parent)))));
                    o.push(("name", s(tcx.item_name(did).to_string())));
                    o.push(("has_self", J::Bool(tcx.associated_item(did).is_method())));
                    if matches!(tcx.def_kind(parent), DefKind::Trait) {
                        o.push(("has_default", J::Bool(tcx.defaultness(did).has_value())));
                    }
                }
            }
            DefKind::Impl { of_trait } => {
                o.push(("generics", self.generics(did)));
                o.push(("preds", self.predicates(did)));
                let self_ty = tcx.type_of(did).instantiate_identity().skip_norm_wip();
                o.push(("self_ty", n(self.ty(self_ty))));
                if of_trait {
                    let trf = tcx.impl_trait_ref(did).instantiate_identity().skip_norm_wip();
                    o.push(("trait", s(self.path(trf.def_id))));
                    o.push(("trait_args", self.gargs(trf.args)));
                }
                let auto = tcx.is_automatically_derived(did);
                o.push(("auto_derived", J::Bool(auto)));
                let items: Vec<J> = tcx
                    .associated_items(did)
                    .in_definition_order()
                    .map(|ai| J::Obj(vec![("name", s(ai.name().to_string())), ("id", s(self.path(ai.def_id))), ("kind", s(format!("{:?}", tcx.def_kind(ai.def_id))))]))
                    .collect();
                o.push(("items", J::Arr(items)));
            }
            DefKind::Struct | DefKind::Enum | DefKind::Union => {
                o.push(("generics", self.generics(did)));
                let adt = tcx.adt_def(did);
                let mut vs = Vec::new();
                for v in adt.variants() {
                    let mut fs = Vec::new();
                    for f in &v.fields {
                        let t = tcx.type_of(f.did).instantiate_identity().skip_norm_wip();
                        let vis = match f.vis {
                            ty::Visibility::Public => "pub",
                            _ => "restricted",
                        };
                        fs.push(J::Obj(vec![("name", s(f.name.to_string())), ("ty", n(self.ty(t))), ("vis", s(vis))]));
                    }
                    vs.push(J::Obj(vec![("name", s(v.name.to_string())), ("fields", J::Arr(fs))]));
                }
                o.push(("variants", J::Arr(vs)));
            }
            DefKind::TyAlias => {
                o.push(("generics", self.generics(did)));
                let t = tcx.type_of(did).instantiate_identity().skip_norm_wip();
                o.push(("alias_of", n(self.ty(t))));
            }
            DefKind::Const { .. } | DefKind::Static { .. } | DefKind::AssocConst { .. } => {
                let t = tcx.type_of(did).instantiate_identity().skip_norm_wip();
                o.push(("ty", n(self.ty(t))));
                if let DefKind::Static { mutability, .. } = kind {
                    o.push(("mut", J::Bool(mutability.is_mut())));
                }
                if matches!(kind, DefKind::AssocConst { .. }) {
                    let parent = tcx.parent(did);
                    o.push(("parent", s(self.path(parent))));
                    o.push(("name", s(tcx.item_name(did).to_string())));
                }
            }
            DefKind::Trait => {
                o.push(("generics", self.generics(did)));
                let items: Vec<J> = tcx
                    .associated_items(did)
                    .in_definition_order()
                    .map(|ai| J::Obj(vec![("name", s(ai.name().to_string())), ("id", s(self.path(ai.def_id))), ("kind", s(format!("{:?}", tcx.def_kind(ai.def_id))))]))
                    .collect();
                o.push(("items", J::Arr(items)));
            }
            DefKind::Closure => {
                let parent = tcx.typeck_root_def_id(did);
                o.push(("root", s(self.path(parent))));
            }
            DefKind::Macro(_) | DefKind::Mod | DefKind::AssocTy => {}
            DefKind::Use => {
                let item = tcx.hir_expect_item(ldid);
                if let hir::ItemKind::Use(up, uk) = item.kind {
                    let segs: Vec<String> = up.segments.iter().map(|s| s.ident.name.to_string()).collect();
                    o.push(("use_path", s(segs.join("::"))));
                    let (k, name) = match uk {
                        hir::UseKind::Single(id) => ("single", id.name.to_string()),
                        hir::UseKind::Glob => ("glob", String::new()),
                        hir::UseKind::ListStem => ("stem", String::new()),
                    };
                    o.push(("use_kind", s(k)));
                    o.push(("use_name", s(name)));
                    let mut targets = Vec::new();
                    for r in [up.res.type_ns, up.res.value_ns, up.res.macro_ns] {
                        if let Some(Res::Def(_, d)) = r {
                            targets.push(s(self.path(d)));
                        }
                    }
                    o.push(("use_targets", J::Arr(targets)));
                    let vis = tcx.visibility(did);
                    o.push(("vis", s(match vis { ty::Visibility::Public => "pub".to_string(), _ => "restricted".to_string() })));
                }
            }
            _ => return None,
        }
        Some(J::Obj(o))
    }

    fn body(&mut self, ldid: LocalDefId) -> Option<J> {
        let tcx = self.tcx;
        let kind = tcx.def_kind(ldid.to_def_id());
        if matches!(kind, DefKind::Closure | DefKind::InlineConst | DefKind::AnonConst) {
            return None; // closures are nested inline; anon consts are not interesting
        }
        let tr = tcx.typeck(ldid);
        if tr.tainted_by_errors.is_some() {
            return None;
        }
        let body = tcx.hir_body_owned_by(ldid);
        let ps: Vec<J> = body.params.iter().map(|p| self.pat(tr, p.pat)).collect();
        let v = self.expr(tr, body.value);
        Some(J::Obj(vec![("id", s(self.path(ldid.to_def_id()))), ("params", J::Arr(ps)), ("value", v)]))
    }
}

fn dump(tcx: TyCtxt<'_>, out_dir: &str) {
    let crate_name = tcx.crate_name(rustc_hir::def_id::LOCAL_CRATE).to_string();
    let mut d = Dumper {
        tcx,
        types: Vec::new(),
        type_ix: HashMap::new(),
        files: Vec::new(),
        file_ix: HashMap::new(),
        mbs: Vec::new(),
        mb_ix: HashMap::new(),
    };
    let mut items = Vec::new();
    let bodies_wanted = std::env::var("PTFACTS_NOBODIES").map(|v| {
        v.split(',').all(|c| c != crate_name)
    }).unwrap_or(true);
    let ci = tcx.hir_crate_items(());
    for ldid in ci.definitions() {
        if let Some(j) = d.item(ldid) {
            items.push(j);
        }
    }
    let mut bodies = Vec::new();
    if bodies_wanted {
        for ldid in tcx.hir_body_owners() {
            if let Some(j) = d.body(ldid) {
                bodies.push(j);
            }
        }
    }
    let cfg_debug = tcx.sess.opts.debug_assertions;
    let is_test = tcx.sess.is_test_crate();
    let crate_types: Vec<J> = tcx.crate_types().iter().map(|c| s(format!("{:?}", c))).collect();
    let features: Vec<J> = tcx
        .sess
        .config
        .iter()
        .filter_map(|(k, v)| if k.as_str() == "feature" { v.map(|v| s(v.as_str())) } else { None })
        .collect();
    let src_files: Vec<J> = tcx
        .sess
        .source_map()
        .files()
        .iter()
        .filter(|f| f.cnum == rustc_hir::def_id::LOCAL_CRATE)
        .map(|f| s(format!("{}", f.name.prefer_local_unconditionally())))
        .collect();
    let top = J::Obj(vec![
        ("crate", s(crate_name.clone())),
        ("debug_assertions", J::Bool(cfg_debug)),
        ("test", J::Bool(is_test)),
        ("crate_types", J::Arr(crate_types)),
        ("features", J::Arr(features)),
        ("src_files", J::Arr(src_files)),
        ("files", J::Arr(d.files.iter().map(|f| s(f.clone())).collect())),
        ("mbs", J::Arr(d.mbs.clone())),
        ("types", J::Arr(d.types.clone())),
        ("items", J::Arr(items)),
        ("bodies", J::Arr(bodies)),
    ]);
    let mut out = String::new();
    top.write(&mut out);
    let tag = std::env::var("PTFACTS_TAG").unwrap_or_default();
    let kind = if is_test { "test" } else { "lib" };
    let name = format!("{}/{}{}.{}.{}.json", out_dir, crate_name, tag, kind, std::process::id());
    std::fs::create_dir_all(out_dir).expect("create PTFACTS_OUT");
    std::fs::write(&name, out).expect("write facts");
}

struct Cb {
    out: String,
}

impl rustc_driver::Callbacks for Cb {
    fn after_analysis<'tcx>(&mut self, _c: &Compiler, tcx: TyCtxt<'tcx>) -> Compilation {
        use rustc_middle::ty::print::{with_no_trimmed_paths, with_no_visible_paths, with_resolve_crate_name};
        with_resolve_crate_name!(with_no_trimmed_paths!(with_no_visible_paths!(dump(tcx, &self.out))));
        Compilation::Continue
    }
}

struct NoCb;
impl rustc_driver::Callbacks for NoCb {}

fn main() {
    let mut args: Vec<String> = std::env::args().collect();
    // wrapper mode: argv[1] is the real rustc
    if args.len() > 1 && (args[1].ends_with("rustc") || args[1].contains("/rustc")) {
        args.remove(1);
    }
    let wanted = std::env::var("PTFACTS_CRATES").unwrap_or_default();
    let out = std::env::var("PTFACTS_OUT").unwrap_or_else(|_| "/tmp/ptfacts-out".to_string());
    let mut crate_name = String::new();
    let mut i = 0;
    while i < args.len() {
        if args[i] == "--crate-name" && i + 1 < args.len() {
            crate_name = args[i + 1].clone();
        }
        i += 1;
    }
    let is_wanted = !crate_name.is_empty() && wanted.split(',').any(|c| c == crate_name);
    // `rustc -vV` and friends, build scripts, unwanted crates: plain compile
    if is_wanted {
        rustc_driver::run_compiler(&args, &mut Cb { out });
    } else {
        rustc_driver::run_compiler(&args, &mut NoCb);
    }
}
