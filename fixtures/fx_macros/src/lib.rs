//! Fixture: one invocation of every exported macro of pest_typed, so that the
//! code they expand to (which only exists in user crates) can be analysed.
//! Compiled under the ptfacts driver, never executed.
#![allow(dead_code, non_camel_case_types, unused_parens)]

#[derive(Clone, Copy, Debug, Eq, Hash, Ord, PartialEq, PartialOrd)]
pub enum Rule {
    EOI,
    A,
    CA,
    NA,
    N,
    S,
    A2,
    CA2,
    NA2,
    N2,
    S2,
}

pub type Inner<'i> = ::pest_typed::predefined_node::ANY;
pub type Ignored<'i> =
    ::pest_typed::predefined_node::AtomicRepeat<::pest_typed::predefined_node::CharRange<' ', ' '>>;

pub mod shortcuts {
    use super::{Ignored, Inner, Rule};
    ::pest_typed::atomic_rule!(A, "atomic", Rule, Rule::A, Inner<'i>);
    ::pest_typed::compound_atomic_rule!(CA, "compound atomic", Rule, Rule::CA, Inner<'i>, false);
    ::pest_typed::non_atomic_rule!(NA, "non atomic", Rule, Rule::NA, Inner<'i>, Ignored<'i>, false);
    ::pest_typed::normal_rule!(N, "normal", Rule, Rule::N, Inner<'i>, Ignored<'i>, true);
    ::pest_typed::silent_rule!(S, "silent", Rule, Rule::S, Inner<'i>, Ignored<'i>, false);
    ::pest_typed::rule_eoi!(EOI, Rule);
}

/// The forms the generator emits (`rule!` called directly).
pub mod direct {
    use super::{Ignored, Inner, Rule};
    ::pest_typed::rule!(A2, "atomic", Rule, Rule::A2, Inner<'i>, Ignored<'i>, true, Span, true);
    ::pest_typed::rule!(CA2, "compound atomic", Rule, Rule::CA2, Inner<'i>, Ignored<'i>, true, Both, true);
    ::pest_typed::rule!(NA2, "non atomic", Rule, Rule::NA2, Inner<'i>, Ignored<'i>, false, Both, false);
    ::pest_typed::rule!(N2, "normal", Rule, Rule::N2, Inner<'i>, Ignored<'i>, INHERITED, Both, false);
    ::pest_typed::rule!(S2, "silent", Rule, Rule::S2, Inner<'i>, Ignored<'i>, INHERITED, Expression, true);
}

pub mod arity13 {
    ::pest_typed::seq!(
        Seq13, 13, T0, 0, T1, 1, T2, 2, T3, 3, T4, 4, T5, 5, T6, 6, T7, 7, T8, 8, T9, 9, T10, 10, T11, 11,
        T12, 12,
    );
    ::pest_typed::choices!(
        Choice13, choice13, 13, T0, _0, T1, _1, T2, _2, T3, _3, T4, _4, T5, _5, T6, _6, T7, _7, T8, _8, T9, _9,
        T10, _10, T11, _11, T12, _12,
    );
}
