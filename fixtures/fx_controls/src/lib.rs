//! Positive controls for the rules whose expected count on /repo is zero (R18-NOSTATE, R20-DET): each scanner must fire
//! on the construct below that it exists to find. Compiled under the ptfacts driver, never executed.
#![allow(dead_code)]
use std::collections::{HashMap, HashSet};

pub static COUNTER: std::sync::atomic::AtomicUsize = std::sync::atomic::AtomicUsize::new(0);

thread_local! {
    static TL: std::cell::Cell<u32> = std::cell::Cell::new(0);
}

pub fn hash_iter_call(m: &HashMap<u32, u32>) -> Vec<u32> {
    m.keys().copied().collect()
}

pub fn hash_iter_for(s: &HashSet<u32>) -> u32 {
    let mut t = 0;
    for x in s {
        t += x;
    }
    t
}

pub fn clock() -> std::time::SystemTime {
    std::time::SystemTime::now()
}

pub fn env() -> Option<String> {
    std::env::var("X").ok()
}

pub fn tl() -> u32 {
    TL.with(|c| c.get())
}

pub struct Shared {
    pub cell: std::cell::RefCell<u32>,
}
