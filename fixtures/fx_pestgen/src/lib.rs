//! Empty: this fixture only pulls pest_generator into the build so that its built-in rule table can be read.
